import sys, time, z3
from interp import *
from models import some, none, OPT

SRC = {'attr': '/tmp/p3/repo/o2o-impl/src/attr.rs', 'ast': '/tmp/p3/repo/o2o-impl/src/ast.rs',
       'expand': '/tmp/p3/repo/o2o-impl/src/expand.rs', 'validate': '/tmp/p3/repo/o2o-impl/src/validate.rs'}
E = Engine('/tmp/p3/mir.txt', SRC)

NA = int(sys.argv[1]) if len(sys.argv) > 1 else 3
NG = int(sys.argv[2]) if len(sys.argv) > 2 else 2

def typath(sid):  # attr::TypePath {span, path, path_str, generics, nameless_tuple}
    return Agg('struct', 'attr::TypePath', ['span', 'ts', sid, none(), False])

def opt_typath(tag):
    has = z3.Bool(f'{tag}_has'); sid = z3.Int(f'{tag}_ty')
    return EnumV(OPT, z3.If(has, 1, 0), {1: [typath(sid)]}), has, sid

attrs, ghosts = [], []
sym = {'a': [], 'g': []}
for i in range(NA):
    ct, has, sid = opt_typath(f'a{i}')
    fall = z3.Bool(f'a{i}_fallible'); ap = [z3.Bool(f'a{i}_ap{k}') for k in range(6)]
    core = Agg('struct', 'attr::MemberAttrCore', [ct, none(), none()])
    attrs.append(Agg('struct', 'attr::MemberAttr', [core, fall, 'instr', Agg('array', None, list(ap))]))
    sym['a'].append((has, sid, fall, ap))
for i in range(NG):
    ct, has, sid = opt_typath(f'g{i}')
    ap = [z3.Bool(f'g{i}_ap{k}') for k in range(6)]
    ghosts.append(Agg('struct', 'attr::GhostAttr', [Agg('struct', 'attr::FieldGhostAttrCore', [ct, none()]), Agg('array', None, list(ap))]))
    sym['g'].append((has, sid, ap))

names = E.structs['attr::MemberAttrs']
fields = []
for n in names:
    if n == 'attrs': fields.append(VecV(attrs))
    elif n == 'ghost_attrs': fields.append(VecV(ghosts))
    elif n in ('skip_repeat', 'stop_repeat'): fields.append(False)
    elif n == 'repeat': fields.append(none())
    else: fields.append(VecV([]))
member_attrs = Agg('struct', 'attr::MemberAttrs', fields)

kind_d = z3.Int('kind'); fallible = z3.Bool('fallible'); ty_id = z3.Int('ty')
E.solver.add(kind_d >= 0, kind_d <= 5)

def run(E):
    ma = Cell(clone_val(member_attrs)); ma.v.f[0] = VecV([clone_val(x) for x in attrs]); ma.v.f[3] = VecV([clone_val(x) for x in ghosts])
    kind = Cell(EnumV('attr::Kind', kind_d, {}))
    ty = Cell(typath(ty_id))
    r = E.call_fn(E.method_index['attr::MemberAttrs::applicable_attr'], [Ref(ma), Ref(kind), fallible, Ref(ty)])
    # classify result
    d = r.d
    if isinstance(d, int) and d == 0: return ('none',)
    # ApplicableAttr variants: Field(0), Ghost(1), ParentChildField(2)
    assert isinstance(r, EnumV) and r.d == 1 and r.name == OPT, r
    inner = r.p[1][0]
    vidx = inner.d
    ref = inner.p[vidx][0]
    return (E.enums['attr::ApplicableAttr'][vidx], ref.proj)

# ---- reference spec (from the property statement), as z3 Int code: -1 none, 100+i ghost i, i field i
KIND = {'OwnedInto': 0, 'RefInto': 1, 'FromOwned': 2, 'FromRef': 3, 'OwnedIntoExisting': 4, 'RefIntoExisting': 5}
def first(conds, codes, default):
    e = default
    for c, code in reversed(list(zip(conds, codes))): e = z3.If(c, code, e)
    return e
def sel(ap, k):  # ap[k] with symbolic k
    e = ap[5]
    for i in range(4, -1, -1): e = z3.If(k == i, ap[i], e)
    return e
def level(k, f):
    ded = [z3.And(sel(ap, k), fall == f, has, sid == ty_id) for (has, sid, fall, ap) in sym['a']]
    dfl = [z3.And(sel(ap, k), fall == f, z3.Not(has)) for (has, sid, fall, ap) in sym['a']]
    codes = list(range(NA))
    return first(ded, codes, first(dfl, codes, z3.IntVal(-1)))
def chain(levels):
    e = z3.IntVal(-1)
    for l in reversed(levels): e = z3.If(l != -1, l, e)
    return e
into_of = z3.If(kind_d == 4, 0, 1)
is_ex = z3.Or(kind_d == 4, kind_d == 5)
lv = [level(kind_d, fallible), z3.If(fallible, level(kind_d, z3.BoolVal(False)), -1),
      z3.If(is_ex, level(into_of, fallible), -1), z3.If(z3.And(is_ex, fallible), level(into_of, z3.BoolVal(False)), -1)]
gd = [z3.And(sel(ap, kind_d), has, sid == ty_id) for (has, sid, ap) in sym['g']]
gf = [z3.And(sel(ap, kind_d), z3.Not(has)) for (has, sid, ap) in sym['g']]
gcodes = [100 + i for i in range(NG)]
spec = first(gd, gcodes, first(gf, gcodes, chain(lv)))

t0 = time.time()
res = E.explore(run)
t1 = time.time()
print(f'paths={len(res)} time={t1-t0:.1f}s stats={E.stats}')
bad = 0; q = 0; ts = 0
s = z3.Solver()
for pc, (st, r) in res:
    if st != 'ok': print('PANIC path', r); bad += 1; continue
    if r[0] == 'none': code = -1
    else:
        idx = [p for p in r[1] if p[0] == 'f']
        # proj: (('f',3),('f',i),('f',0)) for ghost -> field 3 = ghost_attrs ; (('f',0),('f',i),('f',0)) for attrs
        code = (100 + r[1][1][1]) if r[1][0] == ('f', 3) else r[1][1][1]
    s.push(); s.add(*pc); s.add(spec != code)
    t = time.time(); c = s.check(); ts += time.time() - t; q += 1
    if c != z3.unsat:
        bad += 1; print('MISMATCH', r, code, s.model() if c == z3.sat else c)
    s.pop()
print(f'queries={q} solver_time={ts:.1f}s mismatches={bad}')
