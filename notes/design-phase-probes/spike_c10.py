import sys, time, z3
from interp import *
import models
from models import some, none, OPT, TS, TT, DL
SRC = {'attr': '/tmp/p3/repo/o2o-impl/src/attr.rs', 'ast': '/tmp/p3/repo/o2o-impl/src/ast.rs', 'expand': '/tmp/p3/repo/o2o-impl/src/expand.rs', 'validate': '/tmp/p3/repo/o2o-impl/src/validate.rs'}
E = Engine(sys.argv[3] if len(sys.argv) > 3 else '/tmp/p3/mir.txt', SRC)
E.enums[TT] = ['Group', 'Ident', 'Punct', 'Literal']; E.enums[DL] = ['Parenthesis', 'Brace', 'Bracket', 'None']
W = int(sys.argv[1]) if len(sys.argv) > 1 else 2
D = int(sys.argv[2]) if len(sys.argv) > 2 else 2
cnt = [0]
def sym_ts(depth, tag):
    items = []
    for i in range(W):
        t = f'{tag}_{i}'
        cls = z3.Int(t + '_cls'); E.solver.add(cls >= 0, cls <= (3 if depth > 1 else 3))
        ch = z3.Int(t + '_ch'); dl = z3.Int(t + '_dl'); E.solver.add(ch >= 0, ch <= 0x10FFFF, dl >= 0, dl <= (2 if "nonone" in sys.argv else 3))
        pay = {1: [('ident', t)], 2: [Agg('punct', None, [ch, z3.Bool(t + '_joint')])], 3: [('lit', t)]}
        if depth > 1:
            pay[0] = [Agg('group', None, [EnumV(DL, dl, {}), sym_ts(depth - 1, t)])]
        else:
            E.solver.add(cls != 0)
        items.append(EnumV(TT, cls, pay))
    return TS(items)
inp = sym_ts(D, 't')
AT = TS([('AT',)]); TILDE = TS([('TI', 1), ('TI', 2)])

def run(E):
    c_in = Cell(TS([clone_val(x) for x in inp.items]))
    at = some(Ref(Cell(AT))); ti = some(Ref(Cell(TILDE)))
    out = E.call_fn('expand::replace_tilde_or_at_in_expr', [Ref(c_in), at, ti])
    # reference, executed under the same path condition (forks further if the impl did not look)
    def ref(ts):
        res = []
        for tok in ts.items:
            cls = tok.d
            lab = E.decide([(k, cls == k) for k in (0, 1, 2, 3)]) if not isinstance(cls, int) else cls
            if lab == 0:
                g = tok.p[0][0]; res.append(('group', g.f[0].d, ref(g.f[1])))
            elif lab == 2:
                ch = tok.p[2][0].f[0]
                w = E.decide([('ti', ch == ord('~')), ('at', ch == ord('@')), ('other', z3.And(ch != ord('~'), ch != ord('@')))])
                if w == 'ti': res += [('TI', 1), ('TI', 2)]
                elif w == 'at': res += [('AT',)]
                else: res.append(('punct', ch, tok.p[2][0].f[1]))
            else: res.append(('leaf', cls, tok.p[1][0][1]))
        return res
    exp = ref(inp)
    def flat(ts):
        res = []
        for tok in ts.items:
            if isinstance(tok, tuple): res.append(tok); continue
            d = tok.d
            if isinstance(d, int) and d == 0: g = tok.p[0][0]; res.append(('group', g.f[0].d, flat(g.f[1])))
            elif isinstance(d, int) and d == 2: res.append(('punct', tok.p[2][0].f[0], tok.p[2][0].f[1]))
            else: res.append(('leaf', d, tok.p[1][0][1]))
        return res
    return flat(out), exp

def eq_term(a, b):
    """structural equality -> z3 formula (False on shape mismatch)"""
    if isinstance(a, list) and isinstance(b, list):
        if len(a) != len(b): return z3.BoolVal(False)
        return z3.And([eq_term(x, y) for x, y in zip(a, b)] + [z3.BoolVal(True)])
    if isinstance(a, tuple) and isinstance(b, tuple):
        if len(a) != len(b) or a[0] != b[0]: return z3.BoolVal(False)
        return z3.And([eq_term(x, y) for x, y in zip(a[1:], b[1:])] + [z3.BoolVal(True)])
    if isinstance(a, (list, tuple)) or isinstance(b, (list, tuple)): return z3.BoolVal(False)
    r = (a == b)
    return z3.BoolVal(r) if isinstance(r, bool) else r

t0 = time.time(); res = E.explore(run); t1 = time.time()
print(f'paths={len(res)} time={t1-t0:.1f}s stats={E.stats}')
s = z3.Solver(); s.add(*E.solver.assertions()); bad = 0
for pc, (st, r) in res:
    if st != 'ok': print('PANIC', r); bad += 1; continue
    s.push(); s.add(*pc); s.add(z3.Not(eq_term(r[0], r[1])))
    c = s.check()
    if c != z3.unsat:
        bad += 1
        if bad <= 2: print('MISMATCH', c, [(d, s.model()[d]) for d in s.model().decls()][:12], '\n got', r[0], '\n exp', r[1])
    s.pop()
print('violating paths =', bad)
