"""Spike: parser for rustc -Zunpretty=mir text (untrimmed paths)."""
import re, sys
from dataclasses import dataclass, field

@dataclass
class Fn:
    name: str
    params: list
    ret: str
    locals: dict = field(default_factory=dict)
    blocks: dict = field(default_factory=dict)
    header: str = ''

def split_top(s, sep=','):
    """split at top-level separators (ignoring nested () <> [] {} and string literals)"""
    out, depth, cur, i = [], 0, [], 0
    n = len(s)
    while i < n:
        c = s[i]
        if c == '"':
            j = i + 1
            while j < n and s[j] != '"':
                if s[j] == '\\': j += 1
                j += 1
            cur.append(s[i:j+1]); i = j + 1; continue
        if c == '-' and i + 1 < n and s[i+1] == '>':
            cur.append('->'); i += 2; continue
        if c in '([{<': depth += 1
        elif c in ')]}>': depth -= 1
        if c == sep and depth == 0:
            out.append(''.join(cur).strip()); cur = []
        else:
            cur.append(c)
        i += 1
    t = ''.join(cur).strip()
    if t: out.append(t)
    return out

def match_close(s, i):
    """s[i] is an opener; return index of matching closer."""
    pairs = {'(': ')', '[': ']', '{': '}', '<': '>'}
    depth = 0
    n = len(s)
    j = i
    while j < n:
        c = s[j]
        if c == '"':
            j += 1
            while j < n and s[j] != '"':
                if s[j] == '\\': j += 1
                j += 1
        elif c == '-' and j + 1 < n and s[j+1] == '>':
            j += 1
        elif c in '([{<': depth += 1
        elif c in ')]}>':
            depth -= 1
            if depth == 0: return j
        j += 1
    raise ValueError('unbalanced: ' + s[i:i+80])

FN_RE = re.compile(r'^fn (.*)$')

def parse_mir(text):
    fns = {}
    consts = {}
    lines = text.split('\n')
    i = 0
    n = len(lines)
    while i < n:
        ln = lines[i]
        if ln.startswith('fn ') and ln.rstrip().endswith('{'):
            hdr = ln[3:].rstrip()[:-1].rstrip()
            # find arg list: the last top-level '(' ... ')' before ' -> '
            # name may contain '<impl at ...>' and '{closure#0}'
            # locate the param list: scan for '(' at depth 0 (angle/brace aware)
            depth = 0; k = 0; pstart = None
            while k < len(hdr):
                c = hdr[k]
                if c == '-' and hdr[k+1:k+2] == '>': k += 2; continue
                if c in '<{[': depth += 1
                elif c in '>}]': depth -= 1
                elif c == '(' and depth == 0:
                    pstart = k; break
                k += 1
            pend = match_close(hdr, pstart)
            name = hdr[:pstart]
            params = []
            for p in split_top(hdr[pstart+1:pend]):
                m = re.match(r'_(\d+): (.*)$', p)
                params.append((int(m.group(1)), m.group(2)))
            ret = hdr[pend+1:].strip()
            if ret.startswith('->'): ret = ret[2:].strip()
            f = Fn(name, params, ret, header=hdr)
            i += 1
            cur_bb = None
            while i < n and lines[i] != '}':
                l = lines[i].strip()
                m = re.match(r'let (mut )?_(\d+): (.*);$', l)
                if m:
                    f.locals[int(m.group(2))] = m.group(3)
                else:
                    m = re.match(r'(bb\d+)( \(cleanup\))?: \{$', l)
                    if m:
                        cur_bb = m.group(1); f.blocks[cur_bb] = []
                    elif l == '}' :
                        cur_bb = None
                    elif cur_bb is not None and l:
                        f.blocks[cur_bb].append(l)
                i += 1
            for (pn, pt) in params: f.locals[pn] = pt
            fns[name] = f
        elif ln.startswith('const ') and ln.rstrip().endswith('{'):
            # promoted / const body: "const NAME: TY = {"
            hdr = ln[6:].rstrip()[:-1].rstrip()
            m = re.match(r'(.*promoted\[\d+\]): (.*) =$', hdr) or re.match(r'([^<]*?): (.*) =$', hdr)
            name = m.group(1) if m else hdr
            f = Fn(name, [], m.group(2) if m else '', header=hdr)
            i += 1
            cur_bb = None
            while i < n and lines[i] != '}':
                l = lines[i].strip()
                m2 = re.match(r'let (mut )?_(\d+): (.*);$', l)
                if m2: f.locals[int(m2.group(2))] = m2.group(3)
                else:
                    m2 = re.match(r'(bb\d+)( \(cleanup\))?: \{$', l)
                    if m2: cur_bb = m2.group(1); f.blocks[cur_bb] = []
                    elif l == '}': cur_bb = None
                    elif cur_bb is not None and l: f.blocks[cur_bb].append(l)
                i += 1
            consts[name] = f
        i += 1
    return fns, consts

if __name__ == '__main__':
    fns, consts = parse_mir(open(sys.argv[1]).read())
    print(len(fns), 'fns', len(consts), 'consts')
    for k in list(fns)[:5]: print(k)
