"""Spike: library models (trusted) for the std APIs the kernels call."""
import z3
from interp import Agg, EnumV, Ref, VecV, Cell, FnItem, Unsupported, Panic, clone_val

OPT = 'std::option::Option'

def some(v): return EnumV(OPT, 1, {1: [v]})
def none(): return EnumV(OPT, 0, {})

class SliceIter:
    def __init__(self, cell, proj, n): self.cell, self.proj, self.n, self.pos = cell, proj, n, 0
    def next(self, E):
        if self.pos >= self.n: return None
        r = Ref(self.cell, self.proj + (('f', self.pos),)); self.pos += 1
        return r

class Filter:
    def __init__(self, inner, clo): self.inner, self.clo = inner, clo
    def next(self, E):
        while True:
            x = self.inner.next(E)
            if x is None: return None
            keep = E.call_closure(self.clo, [Ref(Cell(x))])
            if E.branch_bool(keep): return x

class Map:
    def __init__(self, inner, clo): self.inner, self.clo = inner, clo
    def next(self, E):
        x = self.inner.next(E)
        if x is None: return None
        return E.call_closure(self.clo, [x])

def deref_val(E, v):
    while isinstance(v, Ref): v = E.load(v.cell, v.proj)
    return v

def opt_branch(E, o):
    """-> True if Some on this path"""
    if isinstance(o.d, int): return o.d == 1
    return E.branch_bool(o.d == 1)

def m_vec_deref(E, a, m): return a[0]            # &Vec<T> -> &[T]: same reference (VecV)
def m_slice_iter(E, a, m):
    r = a[0]; v = E.load(r.cell, r.proj)
    return SliceIter(r.cell, r.proj, len(v.items))
def m_filter(E, a, m): return Filter(a[0], a[1])
def m_map_iter(E, a, m): return Map(a[0], a[1])
def m_find(E, a, m):
    it = a[0]
    if isinstance(it, Ref): it = E.load(it.cell, it.proj)
    while True:
        x = it.next(E)
        if x is None: return none()
        ok = E.call_closure(a[1], [Ref(Cell(x))])
        if E.branch_bool(ok): return some(x)
def m_any(E, a, m):
    it = a[0]
    if isinstance(it, Ref): it = E.load(it.cell, it.proj)
    while True:
        x = it.next(E)
        if x is None: return False
        if E.branch_bool(E.call_closure(a[1], [x])): return True
def m_opt_map(E, a, m):
    if opt_branch(E, a[0]): return some(E.call_closure(a[1], [a[0].p[1][0]]))
    return none()
def m_opt_or_else(E, a, m):
    if opt_branch(E, a[0]): return a[0]
    return E.call_closure(a[1], [])
def m_opt_is_some(E, a, m):
    o = deref_val(E, a[0]); return (o.d == 1)
def m_opt_is_none(E, a, m):
    o = deref_val(E, a[0]); return (o.d == 0)
def m_opt_as_ref(E, a, m):
    r = a[0]; o = E.load(r.cell, r.proj)
    if isinstance(o.d, int):
        return some(Ref(r.cell, r.proj + (('v', 'Some'), ('f', 0)))) if o.d == 1 else none()
    return EnumV(OPT, o.d, {1: [Ref(r.cell, r.proj + (('v', 'Some'), ('f', 0)))]})
def m_opt_unwrap(E, a, m):
    if opt_branch(E, a[0]): return a[0].p[1][0]
    raise Panic('unwrap on None')
def m_string_eq(E, a, m):
    x, y = deref_val(E, a[0]), deref_val(E, a[1])
    r = (x == y)
    return r
def m_ref_eq(E, a, m):
    # <&A as PartialEq<&B>>::eq(&&a, &&b) -> A::eq(&a, &b)
    x = E.load(a[0].cell, a[0].proj); y = E.load(a[1].cell, a[1].proj)
    inner = m.group(1)
    return E.dispatch(f'<{inner} as std::cmp::PartialEq>::eq', [x, y])
def m_variant_ctor(E, a, m):
    # fn item for tuple-variant constructor, e.g. attr::ApplicableAttr::<'_>::Ghost
    path = E._strip_generics(m.group(0)); parts = path.split('::'); ty = '::'.join(parts[:-1])
    idx = E.enums[ty].index(parts[-1])
    return EnumV(ty, idx, {idx: list(a)})

MODELS = [
    (r'<std::vec::Vec<.*> as std::ops::Deref>::deref$', m_vec_deref),
    (r'core::slice::<impl \[.*\]>::iter$', m_slice_iter),
    (r'<.* as std::iter::Iterator>::filter::<.*>$', m_filter),
    (r'<.* as std::iter::Iterator>::map::<.*>$', m_map_iter),
    (r'<.* as std::iter::Iterator>::find::<.*>$', m_find),
    (r'<.* as std::iter::Iterator>::any::<.*>$', m_any),
    (r'std::option::Option::<.*>::map::<.*>$', m_opt_map),
    (r'std::option::Option::<.*>::or_else::<.*>$', m_opt_or_else),
    (r'std::option::Option::<.*>::is_some$', m_opt_is_some),
    (r'std::option::Option::<.*>::is_none$', m_opt_is_none),
    (r'std::option::Option::<.*>::as_ref$', m_opt_as_ref),
    (r'std::option::Option::<.*>::unwrap$', m_opt_unwrap),
    (r'<std::string::String as std::cmp::PartialEq>::eq$', m_string_eq),
    (r'<&(.*) as std::cmp::PartialEq>::eq$', m_ref_eq),
    (r'attr::ApplicableAttr::<.*>::(Ghost|Field)$', m_variant_ctor),
]

# ------------------------------------------------------------------ token models (spike)
TT = 'proc_macro2::TokenTree'; DL = 'proc_macro2::Delimiter'
class TS:
    def __init__(self, items=None): self.items = list(items or [])
    def __repr__(self): return 'TS' + repr(self.items)
class ListIter:
    def __init__(self, items): self.items, self.pos = list(items), 0
    def next(self, E):
        if self.pos >= len(self.items): return None
        x = self.items[self.pos]; self.pos += 1; return x

def ts_of(E, r): return deref_val(E, r)
def m_ts_new(E, a, m): return TS()
def m_ts_clone(E, a, m): return TS(ts_of(E, a[0]).items)
def m_ts_into_iter(E, a, m): return ListIter(a[0].items)
def m_for_each(E, a, m):
    it = a[0]
    while True:
        x = it.next(E)
        if x is None: return Agg('tuple', None, [])
        E.call_closure(a[1], [x])
def m_group_stream(E, a, m): return TS(ts_of(E, a[0]).f[1].items)
def m_group_delim(E, a, m): return clone_val(ts_of(E, a[0]).f[0])
def m_punct_char(E, a, m): return ts_of(E, a[0]).f[0]
def m_ts_to_tokens(E, a, m):
    src = ts_of(E, a[0]); dst = ts_of(E, a[1]); dst.items.extend(src.items); return Agg('tuple', None, [])
def m_opt_ts_to_tokens(E, a, m):
    o = ts_of(E, a[0])
    if opt_branch(E, o):
        src = ts_of(E, o.p[1][0]); ts_of(E, a[1]).items.extend(src.items)
    return Agg('tuple', None, [])
def m_push_group(E, a, m):
    ts_of(E, a[0]).items.append(EnumV(TT, 0, {0: [Agg('group', None, [a[1], a[2]])]})); return Agg('tuple', None, [])
def m_punct_to_tokens(E, a, m):
    ts_of(E, a[1]).items.append(EnumV(TT, 2, {2: [clone_val(ts_of(E, a[0]))]})); return Agg('tuple', None, [])
def m_tt_to_tokens(E, a, m):
    ts_of(E, a[1]).items.append(clone_val(ts_of(E, a[0]))); return Agg('tuple', None, [])
def m_vec_new(E, a, m): return VecV([])
def m_vec_push(E, a, m): ts_of(E, a[0]).items.append(a[1]); return Agg('tuple', None, [])
def m_ts_from_iter(E, a, m):
    out = TS()
    v = a[0]
    for x in v.items: out.items.extend(x.items)
    return out

MODELS += [
    (r'proc_macro2::TokenStream::new$', m_ts_new),
    (r'<proc_macro2::TokenStream as std::clone::Clone>::clone$', m_ts_clone),
    (r'<proc_macro2::TokenStream as std::iter::IntoIterator>::into_iter$', m_ts_into_iter),
    (r'<.* as std::iter::Iterator>::for_each::<.*>$', m_for_each),
    (r'proc_macro2::Group::stream$', m_group_stream),
    (r'proc_macro2::Group::delimiter$', m_group_delim),
    (r'proc_macro2::Punct::as_char$', m_punct_char),
    (r'<proc_macro2::TokenStream as quote::ToTokens>::to_tokens$', m_ts_to_tokens),
    (r'<std::option::Option<&proc_macro2::TokenStream> as quote::ToTokens>::to_tokens$', m_opt_ts_to_tokens),
    (r'quote::__private::push_group$', m_push_group),
    (r'<proc_macro2::Punct as quote::ToTokens>::to_tokens$', m_punct_to_tokens),
    (r'<proc_macro2::TokenTree as quote::ToTokens>::to_tokens$', m_tt_to_tokens),
    (r'std::vec::Vec::<.*>::new$', m_vec_new),
    (r'std::vec::Vec::<.*>::push$', m_vec_push),
    (r'<proc_macro2::TokenStream as std::iter::FromIterator<proc_macro2::TokenStream>>::from_iter::<.*>$', m_ts_from_iter),
]
