"""Spike: path-wise symbolic interpreter for MIR text, z3 for branch feasibility."""
import re, sys, time
import z3
from mirparse import parse_mir, split_top, match_close

# ---------------------------------------------------------------- values
class Cell:
    __slots__ = ('v',)
    def __init__(self, v=None): self.v = v

class Agg:            # struct / tuple / array / closure env
    __slots__ = ('kind', 'name', 'f')
    def __init__(self, kind, name, f): self.kind, self.name, self.f = kind, name, f
    def __repr__(self): return f'{self.name or self.kind}{self.f}'

class EnumV:
    __slots__ = ('name', 'd', 'p')
    def __init__(self, name, d, p): self.name, self.d, self.p = name, d, p   # p: {variant_idx: [fields]}
    def __repr__(self): return f'{self.name}#{self.d}{self.p}'

class Ref:
    __slots__ = ('cell', 'proj')
    def __init__(self, cell, proj=()): self.cell, self.proj = cell, tuple(proj)
    def __repr__(self): return f'&{id(self.cell)%10000}{self.proj}'

class VecV:
    __slots__ = ('items',)
    def __init__(self, items): self.items = items

class FnItem:
    def __init__(self, name): self.name = name

class Unsupported(Exception): pass
class Panic(Exception): pass
class Infeasible(Exception): pass

def clone_val(v):
    if isinstance(v, Agg): return Agg(v.kind, v.name, [clone_val(x) for x in v.f])
    if isinstance(v, EnumV): return EnumV(v.name, v.d, {k: [clone_val(x) for x in f] for k, f in v.p.items()})
    return v

# ---------------------------------------------------------------- type tables
STD_ENUMS = {
    'std::option::Option': ['None', 'Some'],
    'std::result::Result': ['Ok', 'Err'],
}

def load_src_types(paths):
    """struct field order and enum variant order from the crate's source (declaration order = MIR index)."""
    structs, enums = {}, {}
    for mod, p in paths.items():
        src = open(p).read()
        for m in re.finditer(r'(?:pub(?:\(crate\))? )?struct (\w+)(?:<[^>]*>)? *\{', src):
            end = match_close(src, m.end() - 1)
            body = src[m.end():end]
            names = []
            for part in split_top(body):
                part = re.sub(r'#\[[^\]]*\]', '', part).strip()
                mm = re.match(r'(?:pub(?:\(crate\))? )?(\w+) *:', part)
                if mm: names.append(mm.group(1))
            structs[f'{mod}::{m.group(1)}'] = names
        for m in re.finditer(r'(?:pub(?:\(crate\))? )?enum (\w+)(?:<[^>]*>)? *\{', src):
            end = match_close(src, m.end() - 1)
            body = src[m.end():end]
            names = []
            for part in split_top(body):
                part = re.sub(r'#\[[^\]]*\]', '', part).strip()
                mm = re.match(r'(\w+)', part)
                if mm: names.append(mm.group(1))
            enums[f'{mod}::{m.group(1)}'] = names
    return structs, enums

# ---------------------------------------------------------------- engine
class Engine:
    def __init__(self, mir_path, src_paths):
        self.fns, self.consts = parse_mir(open(mir_path).read())
        self.structs, self.enums = load_src_types(src_paths)
        self.enums.update(STD_ENUMS)
        self.src_paths = src_paths
        self.closure_defs = {}
        for name, f in self.fns.items():
            if '{closure#' in name.split('::')[-1] and f.params:
                m = re.search(r'\{closure@[^}]*\}', f.params[0][1])
                if m: self.closure_defs[m.group(0)] = name
        self.method_index = {}
        self._index_impls()
        self.solver = z3.Solver()
        self.stats = {'stmts': 0, 'calls': 0, 'solver': 0, 'solver_s': 0.0}

    def _index_impls(self):
        """map 'mod::Type::method' and '<mod::Type as Trait>::method' to definition names via the impl's source line."""
        cache = {}
        for name in self.fns:
            m = re.match(r'(\w+)::<impl at ([^:]+):(\d+):(\d+): (\d+):(\d+)>::(\w+)$', name)
            if not m: continue
            mod, file, l, c, l2, c2, meth = m.groups()
            key = (file, int(l), int(c))
            if key not in cache:
                cand = [p for p in self.src_paths.values() if p.endswith(file.split('/')[-1])]
                if not cand: continue
                srcfile = cand[0]
                lines = open(srcfile).read().split('\n')
                line = lines[int(l) - 1][int(c) - 1:]
                if line.startswith('impl'):
                    hdr = line.split('{')[0]
                    hdr = re.sub(r"^impl(<[^>]*>)?", '', hdr).strip()
                    if ' for ' in hdr:
                        tr, ty = hdr.split(' for ')
                    else:
                        tr, ty = None, hdr
                    ty = re.sub(r'<.*', '', ty.strip());
                    cache[key] = (tr.strip() if tr else None, ty)
                else:
                    # derive: trait name at this column, type is the next struct/enum item
                    tr = re.match(r'\w+', line).group(0)
                    ty = None
                    for k in range(int(l) - 1, min(len(lines), int(l) + 10)):
                        mm = re.search(r'(?:struct|enum) (\w+)', lines[k])
                        if mm: ty = mm.group(1); break
                    cache[key] = (tr, ty)
            tr, ty = cache[key]
            if tr is None:
                self.method_index[f'{mod}::{ty}::{meth}'] = name
            else:
                self.method_index[('trait', f'{mod}::{ty}', re.sub(r'<.*', '', tr).split('::')[-1], meth)] = name
                # type aliases (e.g. type ApplicableTo = [bool; 6]) : also index by aliased type + trait args
                for sp in self.src_paths.values():
                    am = re.search(r'type %s = (.+);' % re.escape(ty), open(sp).read())
                    if am:
                        targ = re.search(r'<(.*)>', tr)
                        self.method_index[('trait', am.group(1).strip(), re.sub(r'<.*', '', tr).split('::')[-1] + ('<' + targ.group(1).replace('&', '').strip() + '>' if targ else ''), meth)] = name

    # ----- solver helpers
    def feasible(self, cond):
        t = time.time()
        self.solver.push(); self.solver.add(cond)
        r = self.solver.check() == z3.sat
        self.solver.pop()
        self.stats['solver'] += 1; self.stats['solver_s'] += time.time() - t
        return r

    def decide(self, options):
        """options: list of (label, z3cond). Returns chosen label following/recording the decision list."""
        concrete = [(l, c) for l, c in options if c is True or (z3.is_bool(c) and z3.is_true(z3.simplify(c)))]
        if concrete: return concrete[0][0]
        pos = self.dpos
        if pos < len(self.decisions):
            lab = self.decisions[pos]; self.dpos += 1
            cond = dict(options)[lab]
            self.solver.add(cond); self.pc.append(cond)
            return lab
        feas = [(l, c) for l, c in options if c is not False and self.feasible(c)]
        if not feas: raise Infeasible()
        if len(feas) == 1:
            lab, cond = feas[0]
            self.decisions.append(lab); self.dpos += 1
            self.solver.add(cond); self.pc.append(cond)
            return lab
        for l, c in feas[1:]:
            self.worklist.append(self.decisions[:pos] + [l])
        lab, cond = feas[0]
        self.decisions.append(lab); self.dpos += 1
        self.solver.add(cond); self.pc.append(cond)
        return lab

    def branch_bool(self, b):
        if isinstance(b, bool): return b
        return self.decide([(True, b), (False, z3.Not(b))])

    # ----- exploration driver
    def explore(self, run, max_paths=100000):
        """run(engine) -> result for one path; explores all paths by replay."""
        self.worklist = [[]]
        results = []
        while self.worklist and len(results) < max_paths:
            self.decisions = self.worklist.pop()
            self.dpos = 0
            self.pc = []
            self.solver.push()
            try:
                r = run(self)
                results.append((list(self.pc), ('ok', r)))
            except Panic as e:
                results.append((list(self.pc), ('panic', str(e))))
            except Infeasible:
                pass
            finally:
                self.solver.pop()
        return results

    # ----- places
    def parse_place(self, s):
        s = s.strip()
        m = re.match(r'_(\d+)$', s)
        if m: return ('local', int(m.group(1)))
        if s.startswith('(*') and match_close(s, 0) == len(s) - 1:
            return ('deref', self.parse_place(s[2:-1]))
        if s.startswith('(') and match_close(s, 0) == len(s) - 1:
            inner = s[1:-1]
            # downcast: "P as Variant"
            m = re.match(r'(.*) as (\w+)$', inner)
            if m and not re.search(r': ', m.group(1).split(')')[-1]):
                try:
                    return ('downcast', self.parse_place(m.group(1)), m.group(2))
                except Exception: pass
            # field: "P.N: TY"  -- find the '.N: ' that follows a complete place
            for mm in re.finditer(r'\.(\d+): ', inner):
                head = inner[:mm.start()]
                try:
                    base = self.parse_place(head)
                except Exception:
                    continue
                return ('field', base, int(mm.group(1)), inner[mm.end():])
            raise Unsupported('place ' + s)
        m = re.match(r'(.*)\[(\d+) of (\d+)\]$', s)
        if m: return ('cidx', self.parse_place(m.group(1)), int(m.group(2)))
        m = re.match(r'(.*)\[_(\d+)\]$', s)
        if m: return ('idx', self.parse_place(m.group(1)), int(m.group(2)))
        raise Unsupported('place ' + s)

    def lval(self, frame, pl):
        """-> (cell, proj tuple)"""
        k = pl[0]
        if k == 'local': return frame[pl[1]], ()
        if k == 'deref':
            c, p = self.lval(frame, pl[1]); r = self.load(c, p)
            if not isinstance(r, Ref): raise Unsupported(f'deref of non-ref {r!r}')
            return r.cell, r.proj
        if k == 'field':
            c, p = self.lval(frame, pl[1]); return c, p + (('f', pl[2]),)
        if k == 'downcast':
            c, p = self.lval(frame, pl[1]); return c, p + (('v', pl[2]),)
        if k == 'cidx':
            c, p = self.lval(frame, pl[1]); return c, p + (('f', pl[2]),)
        if k == 'idx':
            c, p = self.lval(frame, pl[1]); i = frame[pl[2]].v
            if not isinstance(i, int): raise Unsupported('symbolic index')
            return c, p + (('f', i),)
        raise Unsupported(str(pl))

    def _step(self, v, pr):
        if pr[0] == 'f':
            if isinstance(v, Agg): return v.f, pr[1]
            if isinstance(v, VecV): return v.items, pr[1]
            if isinstance(v, tuple) and v[0] == 'variant': return v[1], pr[1]
            raise Unsupported(f'field of {type(v).__name__} {v!r}')
        if pr[0] == 'v':
            if isinstance(v, EnumV):
                names = self.enums.get(v.name)
                idx = names.index(pr[1])
                return None, ('variant', v.p.setdefault(idx, []))
            raise Unsupported(f'downcast of {v!r}')

    def load(self, cell, proj):
        v = cell.v
        for pr in proj:
            cont, k = self._step(v, pr)
            v = k if cont is None else cont[k]
        return v

    def store(self, cell, proj, val):
        if not proj: cell.v = val; return
        v = cell.v
        for pr in proj[:-1]:
            cont, k = self._step(v, pr)
            v = k if cont is None else cont[k]
        cont, k = self._step(v, proj[-1])
        if cont is None: raise Unsupported('store to variant')
        while len(cont) <= k: cont.append(None)
        cont[k] = val

    # ----- operands / rvalues
    def const(self, s, fn):
        s = s.strip()
        if s in ('true', 'false'): return s == 'true'
        m = re.match(r'(-?\d+)_(?:[iu]\d+|[iu]size)$', s)
        if m: return int(m.group(1))
        if s.startswith('"'): return bytes(s[1:-1], 'utf-8').decode('unicode_escape')
        if len(s) >= 3 and s[0] == "'" and s[-1] == "'": return ord(bytes(s[1:-1], 'utf-8').decode('unicode_escape'))
        if s.startswith('ZeroSized: '):
            t = s[len('ZeroSized: '):]
            if t.startswith('{closure@'): return Agg('closure', t, [])
            return FnItem(t)
        if 'promoted[' in s:
            k = fn.name + '::' + s.split('::')[-1]
            if k in self.consts: return self.eval_const(k)
            raise Unsupported('promoted ' + s)
        # enum unit variant / path constant
        parts = s.split('::')
        ty = '::'.join(parts[:-1])
        if ty in self.enums and parts[-1] in self.enums[ty]:
            return EnumV(ty, self.enums[ty].index(parts[-1]), {})
        raise Unsupported('const ' + s)

    def eval_const(self, name):
        f = self.consts[name]
        frame = {n: Cell() for n in f.locals}
        frame[0] = Cell()
        self.run_body(f, frame)
        return frame[0].v

    def operand(self, frame, s, fn):
        s = s.strip()
        if s.startswith('no_retag '): s = s[9:]
        if s.startswith('copy '):
            c, p = self.lval(frame, self.parse_place(s[5:])); return clone_val(self.load(c, p))
        if s.startswith('move '):
            c, p = self.lval(frame, self.parse_place(s[5:])); return self.load(c, p)
        if s.startswith('const '): return self.const(s[6:], fn)
        # bare fn item operand
        return FnItem(s)

    BINOPS = {'Eq': lambda a, b: a == b, 'Ne': lambda a, b: a != b, 'Lt': lambda a, b: a < b, 'Le': lambda a, b: a <= b,
              'Gt': lambda a, b: a > b, 'Ge': lambda a, b: a >= b, 'Add': lambda a, b: a + b, 'Sub': lambda a, b: a - b,
              'BitAnd': lambda a, b: (a and b) if isinstance(a, bool) and isinstance(b, bool) else z3.And(a, b),
              'BitOr': lambda a, b: (a or b) if isinstance(a, bool) and isinstance(b, bool) else z3.Or(a, b)}

    def rvalue(self, frame, s, fn):
        s = s.strip()
        if s.startswith('&mut '): c, p = self.lval(frame, self.parse_place(s[5:])); return Ref(c, p)
        if s.startswith('&raw '): raise Unsupported(s)
        if s.startswith('&'):
            t = s[1:].strip()
            if t.startswith('fake '): t = t.split(' ', 2)[2]
            c, p = self.lval(frame, self.parse_place(t)); return Ref(c, p)
        m = re.match(r'discriminant\((.*)\)$', s)
        if m:
            c, p = self.lval(frame, self.parse_place(m.group(1))); v = self.load(c, p)
            if isinstance(v, EnumV): return v.d
            raise Unsupported(f'discriminant of {v!r}')
        m = re.match(r'(\w+)\((.*)\)$', s)
        if m and m.group(1) in self.BINOPS:
            a, b = [self.operand(frame, x, fn) for x in split_top(m.group(2))]
            if isinstance(a, EnumV) or isinstance(b, EnumV): raise Unsupported('binop enum')
            if isinstance(a, bool) and not isinstance(b, bool) and z3.is_bool(b): a = z3.BoolVal(a)
            if isinstance(b, bool) and not isinstance(a, bool) and z3.is_bool(a): b = z3.BoolVal(b)
            r = self.BINOPS[m.group(1)](a, b)
            return r
        if m and m.group(1) == 'Not':
            a = self.operand(frame, m.group(2), fn)
            return (not a) if isinstance(a, bool) else z3.Not(a)
        if s.startswith('['):  # array
            return Agg('array', None, [self.operand(frame, x, fn) for x in split_top(s[1:-1])])
        if s.startswith('(') and match_close(s, 0) == len(s) - 1 and not s.startswith('(*') :
            inner = s[1:-1]
            # tuple aggregate vs field-projection place: tuples contain operands
            parts = split_top(inner)
            if parts and re.match(r'(copy|move|const|no_retag) ', parts[0]):
                return Agg('tuple', None, [self.operand(frame, x, fn) for x in parts])
            if inner == '': return Agg('tuple', None, [])
        if s.startswith('{closure@'):
            e = match_close(s, 0); ty = s[:e + 1]; rest = s[e + 1:].strip()
            caps = []
            if rest.startswith('{'):
                for part in split_top(rest[1:-1]):
                    caps.append(self.operand(frame, part.split(': ', 1)[1], fn))
            return Agg('closure', ty, caps)
        # struct aggregate: Path { f: op, .. }
        m = re.match(r'([\w:<>\', ]+?) \{ (.*) \}$', s)
        if m and not re.match(r'(copy|move|const) ', s):
            ty = re.sub(r'<.*>', '', m.group(1)).replace('::<', '<')
            ty = re.sub(r"::<[^>]*>", '', m.group(1)); ty = re.sub(r"<[^>]*>", '', ty)
            names = self.structs.get(ty)
            vals = {}
            for part in split_top(m.group(2)):
                k, v = part.split(': ', 1); vals[k] = self.operand(frame, v, fn)
            if names is None:
                # maybe enum struct-variant
                raise Unsupported('struct aggregate ' + ty)
            return Agg('struct', ty, [vals.get(n) for n in names])
        # enum variant aggregate: Path::Variant(op, ..) or unit
        m = re.match(r'([\w:<>\', &()\[\];]+?)(\((.*)\))?$', s)
        if m and not re.match(r'(copy|move|const|no_retag) ', s):
            path = re.sub(r"::<.*?>(?=::|$)", '', m.group(1))
            path = self._strip_generics(m.group(1))
            parts = path.split('::'); ty = '::'.join(parts[:-1]); var = parts[-1]
            if ty in self.enums and var in self.enums[ty]:
                idx = self.enums[ty].index(var)
                fields = [self.operand(frame, x, fn) for x in split_top(m.group(3))] if m.group(3) else []
                return EnumV(ty, idx, {idx: fields})
        return self.operand(frame, s, fn)

    @staticmethod
    def _strip_generics(p):
        out, depth = [], 0
        i = 0
        while i < len(p):
            c = p[i]
            if c == '<': depth += 1
            elif c == '>': depth -= 1
            elif depth == 0: out.append(c)
            i += 1
        s = ''.join(out)
        return re.sub(r'::(::)+', '::', s).rstrip(':')

    # ----- execution
    def call_fn(self, name, args):
        f = self.fns[name]
        frame = {n: Cell() for n in f.locals}
        frame[0] = Cell()
        for (pn, _), a in zip(f.params, args): frame[pn].v = a
        self.run_body(f, frame)
        return frame[0].v

    def run_body(self, f, frame):
        bb = 'bb0'
        while True:
            stmts = f.blocks[bb]
            for st in stmts[:-1]:
                self.stats['stmts'] += 1
                self.exec_stmt(f, frame, st)
            term = stmts[-1]
            self.stats['stmts'] += 1
            nxt = self.exec_term(f, frame, term)
            if nxt is None: return
            bb = nxt

    def exec_stmt(self, f, frame, st):
        st = st.rstrip(';')
        if st.startswith(('StorageLive', 'StorageDead', 'FakeRead', 'PlaceMention', 'AscribeUserType', 'nop', 'Retag', 'Coverage')): return
        m = re.match(r'(.*?) = (.*)$', st)
        lhs, rhs = m.group(1), m.group(2)
        val = self.rvalue(frame, rhs, f)
        c, p = self.lval(frame, self.parse_place(lhs))
        self.store(c, p, val)

    def exec_term(self, f, frame, t):
        t = t.rstrip(';')
        if t == 'return': return None
        if t == 'unreachable': raise Unsupported('reached unreachable terminator in ' + f.name)
        m = re.match(r'goto -> (bb\d+)$', t)
        if m: return m.group(1)
        m = re.match(r'switchInt\((.*)\) -> \[(.*)\]$', t)
        if m:
            v = self.operand(frame, m.group(1), f)
            targets = [x.split(': ') for x in split_top(m.group(2))]
            if isinstance(v, bool): v = int(v)
            if isinstance(v, int):
                for k, bb in targets:
                    if k != 'otherwise' and int(k) == v: return bb
                return [bb for k, bb in targets if k == 'otherwise'][0]
            opts = []
            if z3.is_bool(v):
                for k, bb in targets:
                    if k == 'otherwise': opts.append((bb, v if any(int(k2) == 0 for k2, _ in targets if k2 != 'otherwise') else z3.Not(v)))
                    elif int(k) == 0: opts.append((bb, z3.Not(v)))
                    else: opts.append((bb, v))
            else:
                vals = [int(k) for k, _ in targets if k != 'otherwise']
                for k, bb in targets:
                    if k == 'otherwise': opts.append((bb, z3.And([v != x for x in vals])))
                    else: opts.append((bb, v == int(k)))
            return self.decide(opts)
        m = re.match(r'drop\(.*\) -> \[return: (bb\d+)', t)
        if m: return m.group(1)
        m = re.match(r'assert\((.*)\) -> \[success: (bb\d+)', t)
        if m:
            am = re.match(r'assert\((!?)((?:move|copy) [^,]*), (".*?")', t)
            v = self.operand(frame, am.group(2), f)
            if am.group(1) == '!': v = (not v) if isinstance(v, bool) else z3.Not(v)
            if self.branch_bool(v): return m.group(2)
            raise Panic('assert failed: ' + am.group(3))
        m = re.match(r'(.*?) = (.*) -> \[return: (bb\d+), unwind.*\]$', t) or re.match(r'(.*?) = (.*) -> (unwind.*)$', t)
        if m:
            dest, call = m.group(1), m.group(2)
            ret_bb = m.group(3) if m.group(3).startswith('bb') else None
            # split callee(args)
            ap = None
            depth = 0
            i = 0
            while i < len(call):
                ch = call[i]
                if ch == '-' and call[i+1:i+2] == '>': i += 2; continue
                if ch in '<{[': depth += 1
                elif ch in '>}]': depth -= 1
                elif ch == '(' and depth == 0:
                    j = match_close(call, i)
                    if j == len(call) - 1: ap = i; break
                    i = j
                i += 1
            callee = call[:ap]; args = [self.operand(frame, a, f) for a in split_top(call[ap+1:-1])]
            self.stats['calls'] += 1
            r = self.dispatch(callee, args)
            if ret_bb is None: raise Panic('diverging call ' + callee)
            c, p = self.lval(frame, self.parse_place(dest))
            self.store(c, p, r)
            return ret_bb
        raise Unsupported('terminator ' + t)

    # ----- dispatch
    def dispatch(self, callee, args):
        bare = self._strip_generics(callee)
        if bare in self.fns: return self.call_fn(bare, args)
        if bare in self.method_index: return self.call_fn(self.method_index[bare], args)
        m = re.match(r'<(.*) as (.*)>::(\w+)$', callee)
        if m:
            ty, tr, meth = m.group(1), m.group(2), m.group(3)
            key = ('trait', self._strip_generics(ty).lstrip('&'), self._strip_generics(tr).split('::')[-1], meth)
            if not ty.startswith('&') and key in self.method_index: return self.call_fn(self.method_index[key], args)
            targ = re.search(r'<(.*)>', tr)
            if targ:
                key2 = ('trait', ty, self._strip_generics(tr).split('::')[-1] + '<' + targ.group(1).replace('&', '').split('::')[-1].strip() + '>', meth)
                if key2 in self.method_index: return self.call_fn(self.method_index[key2], args)
        from models import MODELS
        for pat, fn in MODELS:
            mm = re.match(pat, callee)
            if mm: return fn(self, args, mm)
        raise Unsupported('call ' + callee)

    def call_closure(self, clo, args):
        if isinstance(clo, FnItem):
            return self.dispatch(clo.name, list(args))
        if isinstance(clo, Ref): envarg = clo; clo = self.load(clo.cell, clo.proj)
        name = self.closure_defs[clo.name]
        f = self.fns[name]
        p0 = f.params[0][1]
        if p0.startswith('&'):
            env = Ref(Cell(clo))
        else:
            env = clo
        return self.call_fn(name, [env] + list(args))
