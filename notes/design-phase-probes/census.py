import re, sys
from interp import *
SRC = {'attr': '/tmp/probe/repo/o2o-impl/src/attr.rs', 'ast': '/tmp/probe/repo/o2o-impl/src/ast.rs','expand': '/tmp/probe/repo/o2o-impl/src/expand.rs', 'validate': '/tmp/probe/repo/o2o-impl/src/validate.rs'}
E = Engine('/tmp/probe/mir_full.txt', SRC)
def callees(f):
    out=[]
    for bb, stmts in f.blocks.items():
        t = stmts[-1]
        m = re.match(r'(.*?) = (.*) -> (\[return|unwind)', t)
        if not m: continue
        call = m.group(2)
        depth=0;i=0;ap=None
        while i < len(call):
            ch=call[i]
            if ch=='-' and call[i+1:i+2]=='>': i+=2; continue
            if ch in '<{[': depth+=1
            elif ch in '>}]': depth-=1
            elif ch=='(' and depth==0:
                j=match_close(call,i)
                if j==len(call)-1: ap=i;break
                i=j
            i+=1
        if ap is None: continue
        out.append((call[:ap], call[ap+1:-1]))
    return out
def resolve(c):
    bare=E._strip_generics(c)
    if bare in E.fns: return bare
    if bare in E.method_index: return E.method_index[bare]
    m = re.match(r'<(.*) as (.*)>::(\w+)$', c)
    if m:
        ty,tr,meth=m.groups()
        key=('trait', E._strip_generics(ty).lstrip('&'), E._strip_generics(tr).split('::')[-1], meth)
        if not ty.startswith('&') and key in E.method_index: return E.method_index[key]
        targ = re.search(r'<(.*)>', tr)
        if targ:
            key2=('trait', ty, E._strip_generics(tr).split('::')[-1] + '<' + targ.group(1).replace('&','').split('::')[-1].strip() + '>', meth)
            if key2 in E.method_index: return E.method_index[key2]
    return None
roots = sys.argv[1:]
seen=set(); ext={}
work=[]
for r in roots:
    for n in E.fns:
        if n.endswith(r): work.append(n)
while work:
    n=work.pop()
    if n in seen: continue
    seen.add(n)
    f=E.fns[n]
    # closures referenced
    for bb, stmts in f.blocks.items():
        for st in stmts:
            for cm in re.finditer(r'\{closure@[^}]*\}', st):
                d=E.closure_defs.get(cm.group(0))
                if d and d not in seen: work.append(d)
    for c,args in callees(f):
        r=resolve(c)
        if r: work.append(r)
        else:
            k=re.sub(r"'\w+", "'_", c)
            ext[k]=ext.get(k,0)+1
        # fn items passed as args
        for a in split_top(args):
            if not re.match(r'(copy|move|const|no_retag) ', a):
                r2=resolve(a)
                if r2: work.append(r2)
print('crate fns reachable:', len(seen))
gen={}
for k,v in ext.items():
    g=re.sub(r'::<[^()]*>$','',k)
    g=E._strip_generics(k) if not k.startswith('<') else re.sub(r'<(.*) as (.*)>::(\w+).*', lambda m: '<'+E._strip_generics(m.group(1))+' as '+E._strip_generics(m.group(2))+'>::'+m.group(3), k)
    gen[g]=gen.get(g,0)+v
print('distinct external callee shapes:', len(gen))
for k,v in sorted(gen.items(), key=lambda x:-x[1]): print(v,k)
