"""Slot-level view of generated conversions: decoder (what the generated fn does) and designation oracle
(what the documentation says it should do, DESIGN.md Appendix B; never derived from expand.rs)."""
import os, sys, re
sys.path.insert(0, os.path.join(os.path.dirname(os.path.dirname(os.path.abspath(__file__))), 'oracle'))
import docs
import decode
from decode import is_p, is_i, norm
from tokens import TS, TIdent, TPunct, TLit, TGroup, tokenize
from spec import MapInstr, GhostInstr, GhostsInstr, ChildInstr, ParentInstr, SimpleInstr, Ch

TRAITS = {'::core::convert::From': ('From', False), '::core::convert::TryFrom': ('From', True), '::core::convert::Into': ('Into', False),
          '::core::convert::TryInto': ('Into', True), 'o2o::traits::IntoExisting': ('IntoExisting', False), 'o2o::traits::TryIntoExisting': ('IntoExisting', True)}
FROM = ('FromOwned', 'FromRef')
INTO = ('OwnedInto', 'RefInto')
EXISTING = ('OwnedIntoExisting', 'RefIntoExisting')


# ----------------------------------------------------------------------------------------------- decoding

def split_at(items, ch):
    out, cur = [], []
    for t in items:
        if isinstance(t, TPunct) and t.ch == ch:
            out.append(cur); cur = []
        else:
            cur.append(t)
    out.append(cur)
    return out


def strip_ref(items):
    if items and is_p(items[0], '&'):
        items = items[1:]
        if len(items) >= 2 and is_p(items[0], "'"):
            items = items[2:]
        return True, items
    return False, items


def impl_key(im):
    tname, fallible = TRAITS[im.trait_name]
    if tname == 'From':
        by_ref, cp = strip_ref(im.trait_args)
        kind = 'FromRef' if by_ref else 'FromOwned'
    else:
        by_ref, _ = strip_ref(im.self_ty)
        cp = im.trait_args
        kind = ('RefInto' if by_ref else 'OwnedInto') if tname == 'Into' else ('RefIntoExisting' if by_ref else 'OwnedIntoExisting')
    return kind, fallible, norm(cp)


def parse_literal(items):
    """`Path { a: e, .. u }` | `Path ( e, )` | `Path` | `( e, )`  -> dict(form, ctor, slots [(name|None, rhs)], update)"""
    if not items:
        return {'form': 'empty', 'ctor': '', 'slots': [], 'update': None}
    last = items[-1]
    if isinstance(last, TGroup) and last.delim in ('Brace', 'Parenthesis'):
        ctor = norm(items[:-1])
        entries = [e for e in split_at(last.ts.items, ',') if e]
        slots, upd = [], None
        for ent in entries:
            if len(ent) >= 2 and is_p(ent[0], '.') and is_p(ent[1], '.'):
                upd = norm(ent[2:])
            elif last.delim == 'Brace' and len(ent) >= 2 and is_p(ent[1], ':') and not (len(ent) > 2 and is_p(ent[2], ':')):
                slots.append((norm(ent[:1]), norm(ent[2:])))
            else:
                slots.append((None, norm(ent)))
        return {'form': 'struct' if last.delim == 'Brace' else 'tuple', 'ctor': ctor, 'slots': slots, 'update': upd}
    return {'form': 'unit', 'ctor': norm(items), 'slots': [], 'update': None}


def decode_fn(im):
    """-> dict(kind, fallible, cp, inner_attrs, lets, shape, ...) ; raises ValueError when the body has an unexpected structure"""
    kind, fallible, cp = impl_key(im)
    body = decode.parse_impl_body(im)
    items = list(body.block.ts.items)
    d = {'kind': kind, 'fallible': fallible, 'cp': cp, 'fn_attrs': [norm(a) for a in body.attrs], 'impl_attrs': norm(im.pre), 'inner_attrs': [], 'lets': []}
    i = 0
    while i + 2 < len(items) and is_p(items[i], '#') and is_p(items[i + 1], '!') and isinstance(items[i + 2], TGroup):
        d['inner_attrs'].append(norm(items[i:i + 3])); i += 3
    items = items[i:]
    stmts = split_at(items, ';')
    tail = stmts[-1]
    stmts = stmts[:-1]
    rest = []
    for st in stmts:
        if st and is_i(st[0], 'let') and st[0].origin is None and not (len(st) > 1 and is_i(st[1], 'mut')):
            eq = [k for k, t in enumerate(st) if is_p(t, '=')][0]
            d['lets'].append((norm(st[1:eq]), norm(st[eq + 1:])))
        else:
            rest.append(st)
    d['stmts'] = [norm(s) for s in rest]
    # unwrap Ok( .. )
    t = tail
    d['ok_wrapped'] = False
    if len(t) == 2 and is_i(t[0], 'Ok') and t[0].origin is None and isinstance(t[1], TGroup) and t[1].delim == 'Parenthesis':
        d['ok_wrapped'] = True
        t = list(t[1].ts.items)
    d['tail'] = norm(t)
    d['tail_items'] = t
    # assignments `other . a . b = rhs`
    assigns, calls = [], []
    for st in rest:
        eqs = [k for k, x in enumerate(st) if is_p(x, '=') and not (k + 1 < len(st) and is_p(st[k + 1], '=')) and not (k > 0 and st[k - 1].__class__ is TPunct and st[k - 1].ch in '=!<>')]
        if st and is_i(st[0]) and st[0].name in ('other', 'obj') and st[0].origin is None and eqs:
            assigns.append((norm(st[:eqs[0]]), norm(st[eqs[0] + 1:])))
        elif st and is_p(st[0], '*') and len(st) > 2 and is_i(st[1], 'other') and eqs:
            assigns.append(('*other', norm(st[eqs[0] + 1:])))
        else:
            calls.append(norm(st))
    d['assigns'], d['calls'] = assigns, calls
    return d


# ----------------------------------------------------------------------------------------------- oracle helpers

def subst(text, at, tilde):
    """normalised text of an inline expression with `@` := at and `~` := tilde (token-wise, at every nesting depth)"""
    def walk(ts):
        out = []
        for t in ts.items:
            if isinstance(t, TGroup):
                out.append(TGroup(t.delim, walk(t.ts)))
            elif isinstance(t, TPunct) and t.ch == '@':
                out.extend(tokenize(at).items)
            elif isinstance(t, TPunct) and t.ch == '~':
                if tilde is None:
                    raise KeyError('~ without a member path')
                out.extend(tokenize(tilde).items)
            else:
                out.append(t)
        return TS(out)
    return norm(walk(tokenize(text)).items)


def mtext(m):
    return str(m[1])


class Oracle:
    """designation for flat structs (no child / parent): expected literal / assignment list per generated impl"""

    def __init__(self, spec, ev):
        self.spec, self.ev = spec, ev
        self.dk = docs.doc_kinds()

    def instrs(self, m):
        out = []
        for i in m.instrs:
            if hasattr(i, 'inner'):
                i = i.inner(self.ev(i.ch))
                if i is None:
                    continue
            out.append(i)
        return out

    def winner(self, m, kind, fallible, ty):
        ev = self.ev
        ins = self.instrs(m)
        ki = docs.KINDS.index(kind)
        gh = [g for g in ins if isinstance(g, GhostInstr) and docs.ghost_kinds(ev(g.name))[ki]]
        for g in gh:
            if ev(g.ded) == ty:
                return ('ghost', g)
        for g in gh:
            if ev(g.ded) is None:
                return ('ghost', g)
        maps = [x for x in ins if isinstance(x, MapInstr)]
        steps = [(kind, fallible)] + ([(kind, False)] if fallible else [])
        if kind in EXISTING:
            ik = 'OwnedInto' if kind == 'OwnedIntoExisting' else 'RefInto'
            steps += [(ik, fallible)] + ([(ik, False)] if fallible else [])
        for k, f in steps:
            cand = [x for x in maps if (k, f) in self.dk.get(ev(x.name), ())]
            for x in cand:
                if ev(x.ded) == ty:
                    return ('map', x)
            for x in cand:
                if ev(x.ded) is None:
                    return ('map', x)
        return None

    def ghosts_for(self, ty, kind):
        ev = self.ev
        tis = []
        for i in self.spec.type_instrs:
            if hasattr(i, 'inner'):
                i = i.inner(ev(i.ch))
                if i is None:
                    continue
            tis.append(i)
        gs = [g for g in tis if isinstance(g, GhostsInstr) and docs.ghost_kinds(ev(g.name))[docs.KINDS.index(kind)]]
        for g in gs:
            if ev(g.ded) == ty:
                return g
        for g in gs:
            if ev(g.ded) is None:
                return g
        return None

    def expected(self):
        """-> {(kind, fallible, cp): expectation dict}"""
        spec, ev = self.spec, self.ev
        out = {}
        own = spec.shape            # named | tuple | unit
        for t in spec.traits:
            name = ev(t.name)
            ty = t.ty if isinstance(t.ty, str) else None
            cp = norm(tokenize(t.ty if isinstance(t.ty, str) else '(%s)' % t.ty[1]).items) + (norm(tokenize(t.ty_generics.text()).items) if t.ty_generics else '')
            hint = 'Tuple' if isinstance(t.ty, tuple) else ev(t.hint)
            form = {'Tuple': 'tuple', 'Struct': 'struct', 'Unit': 'unit'}.get(hint, {'named': 'struct', 'tuple': 'tuple', 'unit': 'unit'}[own])
            for kind, fallible in sorted(self.dk[name]):
                exp = {'form': form, 'hint': hint}
                at = 'value' if kind in FROM else 'self'
                vs = ev(t.vars)
                exp['lets'] = [(n, subst(a, at, None)) for n, a in (vs or [])]
                q = ev(t.quick_return)
                if q is not None:
                    exp['quick_return'] = subst(q, at, None)
                    out[(kind, fallible, cp)] = exp
                    continue
                upd = ev(t.update)
                exp['update'] = subst(upd, at, None) if upd is not None else None
                slots = []          # (slot name | position, rhs)
                if kind in FROM:
                    exp['dform'] = {'named': 'struct', 'tuple': 'tuple', 'unit': 'unit'}[own]
                    for i, m in enumerate(spec.members):
                        w = self.winner(m, kind, fallible, ty)
                        mname = m.name if m.name is not None else str(i)
                        default_src = mname if (m.name is None or form != 'tuple') else str(i)
                        if w and w[0] == 'ghost':
                            a = ev(w[1].action)
                            if a is None:
                                continue
                            slots.append((mname, subst(a, at, None)))
                            continue
                        if w:
                            ren, act = ev(w[1].member), ev(w[1].action)
                            r = mtext(ren) if ren is not None else default_src
                            rhs = subst(act, at, 'value.' + r) if act is not None else 'value.' + r
                        else:
                            rhs = 'value.' + default_src
                        slots.append((mname, rhs))
                else:
                    pos = 0
                    for i, m in enumerate(spec.members):
                        w = self.winner(m, kind, fallible, ty)
                        mname = m.name if m.name is not None else str(i)
                        if w and w[0] == 'ghost':
                            continue
                        if any(isinstance(x, ParentInstr) for x in self.instrs(m)):
                            continue
                        if w:
                            ren, act = ev(w[1].member), ev(w[1].action)
                            rhs = subst(act, at, 'self.' + mname) if act is not None else 'self.' + mname
                            slot = mtext(ren) if ren is not None else mname
                        else:
                            rhs, slot = 'self.' + mname, mname
                        if form == 'tuple':
                            # an index rename names the counterpart position (usable by into_existing); a positional literal cannot honour it
                            if w and ev(w[1].member) is not None and ev(w[1].member)[0] == 'i':
                                slot = mtext(ev(w[1].member))
                                if slot != str(pos):
                                    exp['ambiguous_rename'] = True
                            else:
                                slot = str(pos)
                        slots.append((slot, rhs))
                        pos += 1
                    g = self.ghosts_for(ty, kind)
                    if g is not None:
                        for gd in g.data:
                            if gd.path:
                                continue
                            slot = mtext(gd.ident) if form != 'tuple' else str(pos)
                            slots.append((slot, subst(gd.action, at, None)))
                            pos += 1
                exp['slots'] = slots
                # tuple-form counterpart with a skipped member (ghost / parent) before a mapped one: the documentation does not say whether
                # positions are counted with or without the skipped member -> no designation is claimed for that impl
                skipped_seen, amb = False, False
                for i, m in enumerate(spec.members):
                    w = self.winner(m, kind, fallible, ty)
                    skip = (w is not None and w[0] == 'ghost') or any(isinstance(x, ParentInstr) for x in self.instrs(m))
                    if skip:
                        skipped_seen = True
                    elif skipped_seen:
                        amb = True
                exp['ambiguous'] = (amb and (form == 'tuple' or own == 'tuple')) or exp.get('ambiguous_rename', False)
                out[(kind, fallible, cp)] = exp
        return out
