#!/usr/bin/env python3-vt
"""C18 — built with the `syn1` or with the `syn2` feature the derive accepts the same inputs and expands them identically.

TWO encodings are regenerated from /repo on every run: the MIR of o2o-impl built with `--features syn` and the MIR built with
`--features syn2` (the crate selects its parser back-end with cfg attributes: attribute path / argument extraction in
get_data_type_attrs and get_member_attrs, try_parse_child_parents, and every `use syn2 as syn`).  The whole `expand::derive` — the
crate's own Parse impls, attribute collection, from_syn, validation and the expander — is executed symbolically from BOTH encodings
on the same derive input, whose instruction name is a symbolic value (one z3 integer over the name universe of its syntax group plus
unknown names) and whose attribute shape / spelling / surrounding attributes are forked over menus.  Per engine the run yields a
partition of the name space into paths (path condition, outcome); for every pair (p1 of syn1, p2 of syn2) z3 decides whether
pc1 ∧ pc2 is satisfiable, and on every satisfiable pair the outcomes must agree:
   both accept with token-identical output | both reject (with the same set of o2o diagnostics when neither rejection
   originates in the parser library) | never accept on one side and reject on the other.
What is modelled (trusted, and validated on every path by replay) is the token-level API of syn 1.0 and of syn 2.0 that the crate
calls (symx/synmodel.py; the two differ in the `Attribute`/`Meta` layout, `parse_args_with`, enum declaration orders).  Every path
witness is expanded by the two REAL builds (crates/replay = syn 1, crates/replay2 = syn 2): the engine prediction must match its own
back-end, and a disagreement between the back-ends is reported only when the two real builds disagree on the witness."""
import sys, os, re, itertools
sys.path.insert(0, os.path.dirname(os.path.abspath(__file__)))
from common import *   # noqa
import z3
import expander, synmodel, c13, kernels_ast
from engine import Ref, Cell, SymStr, Panic, Unsupported, PathLimit
from build import TRAIT_NAMES, MEMBER_MAP_NAMES

POSTFIX = c13.POSTFIX
UNKNOWN = ['mapp', 'zzz_unknown', 'doc', 'o2o', 'derive']
LIB_MSG = re.compile(r'^(expected |unexpected |cannot parse|unsupported |lex error|invalid |unrecognized literal)')


def universe(key):
    u = {'trait': list(TRAIT_NAMES), 'map': list(MEMBER_MAP_NAMES), 'ghosts': ['ghosts', 'ghosts_owned', 'ghosts_ref'], 'ghost': ['ghost', 'ghost_owned', 'ghost_ref']}
    for single in ('child_parents', 'where_clause', 'child', 'parent', 'literal', 'pattern', 'type_hint'):
        u[single] = [single]
    return u[key] + [n for n in UNKNOWN if n not in u[key]]


# ---- attribute shapes: how the instruction under test `NAME(ARGS)` is written
def shape_text(shape, name, args):
    return {
        'paren': '#[%s(%s)]' % (name, args),
        'bracket': '#[%s[%s]]' % (name, args),
        'brace': '#[%s{%s}]' % (name, args),
        'path-only': '#[%s]' % name,
        'empty-paren': '#[%s()]' % name,
        'name-value': '#[%s = "v"]' % name,
        'qualified': '#[o2o::%s(%s)]' % (name, args),
        'o2o-paren': '#[o2o(%s(%s))]' % (name, args),
        'o2o-bracket': '#[o2o[%s(%s)]]' % (name, args),
        'o2o-brace': '#[o2o{%s(%s)}]' % (name, args),
        'o2o-inner-bracket': '#[o2o(%s[%s])]' % (name, args),
        'o2o-inner-brace': '#[o2o(%s{%s})]' % (name, args),
        'o2o-inner-bare': '#[o2o(%s)]' % name,
        'o2o-trailing-comma': '#[o2o(%s(%s),)]' % (name, args),
    }[shape]


SHAPES = ['paren', 'bracket', 'brace', 'path-only', 'empty-paren', 'name-value', 'qualified', 'o2o-paren', 'o2o-bracket', 'o2o-brace', 'o2o-inner-bracket', 'o2o-inner-brace',
          'o2o-inner-bare', 'o2o-trailing-comma']
# attributes that are not o2o's, placed next to the instruction under test
EXTRAS = ['', '#[doc = "text"]', '#[doc(hidden)]', '#[serde(rename = "x")]', '#[foo = "bar"]', '#[foo{x}]', '#[foo[x]]', '#[foo::bar(x)]', '#[foo]', '#[o2o(allow_unknown)]', '#[o2o]', '#[o2o = "x"]', '#[o2o()]']


def split_instr(s):
    m = re.match(r'(\w+)\((.*)\)$', s, re.S)
    return m.group(1), m.group(2)


def run_outcome(eng, text, sym):
    try:
        di = synmodel.derive_input(eng, text, sym)
    except synmodel.InputRejected as ex:
        return ('input_rejected', [str(ex)], True)
    try:
        r = eng.call_fn('expand::derive', [Ref(Cell(di))])
    except Panic as ex:
        return ('panic', ex.msg)
    if eng.concretize(r.d, [0, 1]) == 0:
        return ('ok', expander.flat(r.p[0][0]))
    ev = r.p[1][0]
    return ('err', [m for _, m in ev.msgs], bool(ev.parse))


def render_msg(m, mdl):
    """a diagnostic built with format! over the symbolic name, instantiated with a model of the path condition"""
    from engine import FmtStr
    def one(p):
        if isinstance(p, SymStr):
            return p.uni[mdl.eval(p.atom, model_completion=True).as_long()]
        return str(p)
    if isinstance(m, FmtStr):
        return ''.join(one(p) for p in m.parts)
    return one(m)


def inst(o, mdl):
    if o[0] == 'err':
        return ('err', sorted(render_msg(m, mdl) for m in o[1]), o[2])
    return o


def native_outcome(r):
    if r['status'] == 'ok':
        return ('ok', expander.flat_text(r['out']))
    if r['status'] == 'err':
        ms = sorted(r['errs'])
        return ('err', ms, any(LIB_MSG.match(m) for m in ms))
    if r['status'] == 'input_parse_error':
        return ('input_rejected', [r.get('msg')], True)
    return (r['status'], r.get('msg'))


def rejected(o):
    return o[0] in ('err', 'input_rejected')


def agree(a, b):
    """the property's relation between the outcome under syn 1 and under syn 2 -> None | (class, text)"""
    if a[0] == 'ok' and b[0] == 'ok':
        return None if a[1] == b[1] else ('expansion-differs', 'both back-ends accept but the expansions are not token-identical')
    if rejected(a) and rejected(b):
        if a[2] or b[2]:
            return None               # a rejection raised by the parser library: only the decision is comparable
        return None if a[1] == b[1] else ('diagnostics-differ', 'both reject, with different o2o diagnostics: %s vs %s' % (a[1], b[1]))
    if a[0] == 'panic' and b[0] == 'panic':
        return None                   # C16's subject
    if a[0] == 'ok' and rejected(b):
        return ('accepted-by-syn1-only', 'syn1 build accepts, syn2 build rejects: %s' % (b[1],))
    if rejected(a) and b[0] == 'ok':
        return ('accepted-by-syn2-only', 'syn2 build accepts, syn1 build rejects: %s' % (a[1],))
    return ('outcome-differs', 'syn1: %s, syn2: %s' % (a[0], b[0]))


def predicted(pred, nat):
    if pred[0] != nat[0]:
        # the syn-2 model rejects an item at input level exactly when the real syn 2 does
        return False
    if pred[0] == 'ok':
        return pred[1] == nat[1]
    if pred[0] == 'err':
        return pred[2] or pred[1] == nat[1]
    return True


def differential(ctx, cases, label):
    """cases: [(class label, text with SYM, universe | None)]"""
    e1, e2 = ctx.engine(1), ctx.engine(2)
    synmodel.install(e1)
    synmodel.install(e2)
    work = []          # (case idx, pc-joint witness name, o1, o2)
    not_exec = 0
    for ci, (cls, text, uni) in enumerate(cases):
        def run(eng):
            sym = {}
            if uni:
                atom = z3.Int('nm')
                eng.assume(z3.And(atom >= 0, atom < len(uni)))
                sym = {'SYM': SymStr(atom, uni)}
            return run_outcome(eng, text, sym)
        try:
            r1 = e1.explore(run)
            r2 = e2.explore(run)
        except (Unsupported, PathLimit, ValueError, IndexError, KeyError, AttributeError, TypeError) as ex:
            not_exec += 1
            why = 'not-executable: %s: %s' % (type(ex).__name__, re.sub(r'[0-9]+', 'N', str(ex))[:90])
            ctx.cov['sub_checks'][why] = ctx.cov['sub_checks'].get(why, 0) + 1
            ctx.cov['sub_checks']['%s:not_executable_in_model' % label] = ctx.cov['sub_checks'].get('%s:not_executable_in_model' % label, 0) + 1
            # still compare the two real builds on every name (auxiliary, not the deciding step)
            for nm in (uni or [None]):
                work.append((ci, nm, None, None))
            continue
        ctx.absorb(e1, r1)
        ctx.absorb(e2, r2)
        for p1 in r1:
            for p2 in r2:
                mdl = ctx.model_of(list(p1.pc) + list(p2.pc))
                if mdl is None:
                    ctx.cov['queries']['unsat'] += 1         # the two paths share no input
                    continue
                nm = uni[mdl.eval(z3.Int('nm'), model_completion=True).as_long()] if uni else None
                o1 = inst(p1.value, mdl) if p1.kind == 'ok' else ('panic', p1.value)
                o2 = inst(p2.value, mdl) if p2.kind == 'ok' else ('panic', p2.value)
                work.append((ci, nm, o1, o2))
                if ctx.tier == 'thorough' and uni:
                    # all-SAT over the joint path condition: every other name of this pair of paths is checked as well
                    seen = [mdl.eval(z3.Int('nm'), model_completion=True).as_long()]
                    while True:
                        m2 = ctx.model_of(list(p1.pc) + list(p2.pc), [z3.Int('nm') != v for v in seen])
                        if m2 is None:
                            break
                        v = m2.eval(z3.Int('nm'), model_completion=True).as_long()
                        seen.append(v)
                        work.append((ci, uni[v], inst(p1.value, m2) if p1.kind == 'ok' else o1, inst(p2.value, m2) if p2.kind == 'ok' else o2))
    texts = [cases[ci][1].replace('SYM', nm) if nm else cases[ci][1] for ci, nm, _, _ in work]
    n1 = ctx.replay.run_many(texts)
    n2 = ctx.replay2.run_many(texts)
    for (ci, nm, o1, o2), t, a, b in zip(work, texts, n1, n2):
        cls = cases[ci][0]
        na, nb = native_outcome(a), native_outcome(b)
        nat_dis = agree(na, nb)
        if o1 is None:
            if nat_dis:
                ctx.violation('back-end-differential', '%s/%s' % (cls, nat_dis[0]), nat_dis[1] + ' (found by native comparison; input not executable in the model)', {'input': t, 'syn1': str(na)[:600], 'syn2': str(nb)[:600]})
            continue
        ok1, ok2 = predicted(o1, na), predicted(o2, nb)
        if ok1 and ok2:
            ctx.cov['traces_validated_against_impl'] += 1
        else:
            ctx.cov['sub_checks']['%s:model_deviations' % label] = ctx.cov['sub_checks'].get('%s:model_deviations' % label, 0) + 1
            if os.environ.get('VERIF_DEBUG'):
                sys.stderr.write('DEV %s\n   syn1 engine %s native %s\n   syn2 engine %s native %s\n' % (t, str(o1)[:100], str(na)[:100], str(o2)[:100], str(nb)[:100]))
            if o1[0] == 'ok' and na[0] == 'ok' and not ok1 or o2[0] == 'ok' and nb[0] == 'ok' and not ok2:
                ctx.inconclusive.append('ENCODING-MISMATCH (C18 %s): %s :: syn1 engine %s native %s | syn2 engine %s native %s' % (label, t, str(o1)[:120], str(na)[:120], str(o2)[:120], str(nb)[:120]))
                continue
        dis = agree(o1, o2)
        ctx.cov['queries']['sat' if dis else 'unsat'] += 1
        if nat_dis:
            ctx.violation('back-end-differential', '%s/%s' % (cls, nat_dis[0]), nat_dis[1], {'input': t, 'syn1': str(na)[:600], 'syn2': str(nb)[:600], 'predicted_by_solver': bool(dis)})
        elif dis:
            ctx.inconclusive.append('C18 difference predicted by the model but not reproduced by the two real builds: %s :: %s' % (t, dis[1][:200]))
    if work:
        w = work[len(work) // 2]
        ctx.sample({'part': label, 'input': texts[len(work) // 2], 'syn1': str(w[2])[:160], 'syn2': str(w[3])[:160]})
    ctx.cov['sub_checks']['%s:cases' % label] = ctx.cov['sub_checks'].get('%s:cases' % label, 0) + len(cases)
    ctx.cov['sub_checks']['%s:path_pairs' % label] = ctx.cov['sub_checks'].get('%s:path_pairs' % label, 0) + len(work)


def shape_class(shape, extra):
    d = {'bracket': 'bare-instruction-in-brackets-or-braces', 'brace': 'bare-instruction-in-brackets-or-braces'}
    if extra.startswith('#[foo[') or extra.startswith('#[foo{'):
        return 'foreign-attribute-in-brackets-or-braces'
    return d.get(shape, 'shape:' + shape if not extra else 'extra:' + extra)


def template_cases(key, tier, seed):
    instrs, ukey, item = c13.TEMPLATES[key]
    uni = universe(ukey)
    cases = []
    k = [i for i, s in enumerate(instrs) if s.startswith('SYM(')][0]
    name, args = split_instr(instrs[k])
    others = lambda: ['#[%s]' % s for i, s in enumerate(instrs) if i != k]
    for shape in SHAPES:
        attrs = others()
        attrs.insert(k, shape_text(shape, name, args))
        cases.append((shape_class(shape, ''), item.replace('{ATTRS}', ' '.join(attrs)), uni))
    extras = EXTRAS[1:] if tier == 'thorough' else [x for i, x in enumerate(EXTRAS[1:]) if (i + seed + len(key)) % 3 == 0]
    for extra in extras:
        for pos in (0, 1):
            attrs = others()
            attrs.insert(k, shape_text('paren', name, args))
            attrs.insert(k + pos, extra)
            cases.append((shape_class('paren', extra), item.replace('{ATTRS}', ' '.join(attrs)), uni))
    return cases


def shard_templates(ctx, sh):
    differential(ctx, template_cases(sh['key'], ctx.tier, ctx.seed), 'templates')


def parse_layer_cases():
    cases = []
    for a in kernels_ast.MEMBER_ARGS:
        cases.append(('member-args', '#[map(X)] #[try_map(Y, Er)] struct S { #[SYM(%s)] a: i32, b: i32 }' % a, MEMBER_MAP_NAMES))
        cases.append(('member-args', '#[map(X)] enum E { A { #[SYM(%s)] x: i32 } }' % a, ['map', 'from', 'into', 'try_map']))
    for a in kernels_ast.TYPE_ARGS:
        cases.append(('type-args', '#[SYM(%s)] struct S { a: i32 }' % a, TRAIT_NAMES))
    for nm, argl in kernels_ast.OTHER:
        for a in argl:
            if nm in ('ghosts', 'child_parents', 'where_clause'):
                cases.append((nm + '-args', '#[map(X)] #[%s(%s)] struct S { a: i32 }' % (nm, a), None))
                if nm == 'ghosts':
                    cases.append((nm + '-args', '#[map(X)] #[%s(%s)] enum E { A }' % (nm, a), None))
            elif nm in ('literal', 'pattern', 'type_hint'):
                cases.append((nm + '-args', '#[map(i32)] enum E { #[%s(%s)] A, B }' % (nm, a), None))
            else:
                cases.append((nm + '-args', '#[map(X)] #[child_parents(a: A)] struct S { #[%s(%s)] a: i32, b: i32 }' % (nm, a), None))
    # child_parents has a back-end specific parser (try_parse_child_parents)
    for a in ['a: A, a.b: B', 'a: A,', 'a.0: A', '0: A, 0.1: B', 'a: m::A<T>', 'a: A as {}', 'a: A as ()', 'a.b.c: C, a: A, a.b: B', 'X| a: A', 'a A', 'a:', ': A', 'a.: A', 'a: A; b: B', 'a: A b: B']:
        cases.append(('child_parents-args', '#[map(X)] #[child_parents(%s)] struct S { #[child(a)] x: i32 }' % a, None))
        cases.append(('child_parents-args', '#[map(X)] #[o2o(child_parents(%s))] struct S { #[child(a)] x: i32 }' % a, None))
    return cases


def shard_parse_layer(ctx, sh):
    cases = parse_layer_cases()
    differential(ctx, cases[sh['i']::sh['n']], 'parse-layer')


# ---- free user-token positions of the DSL, filled with token trees of every syntactic flavour: any place where one back-end parses
# (or re-prints) user tokens through a parser-library type instead of passing them on would show here
METAS = ['inline', 'cfg(feature = "x")', 'doc = "text"', 'allow(clippy::all)', 'tracing::instrument(skip(value), fields(id = %value.id))', 'my_attr(1 + 2)', 'derive(Clone)',
         'x = 1 + 2', 'deprecated(since = "1", note = "n")', 'path::to::attr', 'a(b(c(d)))', 'attr[x]', 'attr{x}', 'a = b::c', 'a(if x { 1 } else { 2 })', "a('x')", 'a(b"by")', 'a(1.5e3)',
         'a(-1)', 'a(..)', 'a(|x| x + 1)', 'a(&mut x)', 'a(x?)', 'cfg_attr(test, derive(Debug))', 'a(b = c, d)', 'a(1, "two", 3.0)', 'unsafe(no_mangle)', 'a::b = "c"']
EXPRS = ['1 + 2', 'f(@.a, ~)', '@.a.clone()', 'if @.a > 0 { 1 } else { 2 }', '|x| x + 1', 'vec![1, 2]', '&mut *p', 'x?', '@.a as u8', '"s".to_string()', "'c'", 'b"by"', '1.5e3', '-1',
         '0..=5', 'S { a: 1, ..d }', 'match x { _ => 1 }', 'unsafe { f() }', 'a::<T>::b()', '<T as Tr>::f()', 'loop { break 1 }', 'async { 1 }', 'x.await', '1u8', '0xffu32', 'x % 2',
         'a && b || !c', '()', '(1, 2)', '[1, 2][0]', 'x.0.1', 'return 5', 'Default::default()', 'a < b', 'a::b::<c>(d)', 'm!{ x }', '*~', '&~', '~ + @.b']
TYPES = ['X', 'm::X', 'X<T>', "X<'a, T>", '(i32, i64)', 'X<Y<Z>>', 'X<{ 1 }>', '::m::X', 'X<(i32, String)>', 'X<T, 4>', 'X::<T>', 'm::X<T>::Y', 'X<dyn Tr>', "X<&'a str>", 'X<[u8; 4]>', 'X<fn(i32) -> i32>',
         'X<T = i32>', 'X<T: Tr>', '<T as Tr>::X', '[u8; 4]', '&X', 'Box<dyn Tr + Send>', 'impl Tr', '!', '_', 'i32']


def payload_cases():
    cases = []
    for m in METAS:
        for kw_ in ('attribute', 'impl_attribute', 'inner_attribute'):
            cases.append(('user-tokens:attribute-param', '#[map(X| %s(%s))] struct S { a: i32 }' % (kw_, m), None))
        cases.append(('user-tokens:attribute-param', '#[o2o(try_into(X, Er| attribute(%s), vars(v: { 1 })))] enum E { A, B }' % m, None))
    for x in EXPRS:
        for t in ('#[map(X)] #[into_existing(X)] struct S { #[map(%s)] a: i32, b: i32 }', '#[map(X)] struct S { #[from(zz, %s)] #[into(zz, %s)] a: i32 }'.replace('%s', '{0}'),
                  '#[map(X)] struct S { #[from({ %s })] a: i32 }', '#[map(X)] struct S { #[ghost({ %s })] a: i32 }', '#[map(X)] #[ghosts(g: { %s })] struct S { a: i32 }',
                  '#[map(X| vars(v: { %s }), ..{0})] struct S { a: i32 }'.replace('{0}', '%s'), '#[owned_into(X| return %s)] struct S { a: i32 }', '#[from_owned(X| _ => %s)] enum E { A, B }',
                  '#[try_map(i32, Er| _ => %s)] enum E { #[literal(%s)] A, #[pattern(_)] B }'.replace('%s)] A', '{0})] A').replace('{0}', '%s'),
                  '#[map(i32| _ => 0)] enum E { #[pattern(%s)] A, B }', '#[map(X)] enum E { #[from(%s)] #[into(%s)] A, B(#[map(%s)] i32) }',
                  '#[map(X)] #[child_parents(c: C)] struct S { #[child(c)] #[map(%s)] a: i32 }', '#[map(X)] struct S { #[parent([map(%s)] q, r)] a: P }'):
            try:
                text = t.format(x) if '{0}' in t else t % tuple([x] * t.count('%s'))
            except (ValueError, IndexError, KeyError):
                text = t.replace('{0}', x)
            cases.append(('user-tokens:expression', text, None))
    for ty in TYPES:
        for t in ('#[map(%s)] struct S { a: i32 }', '#[try_map(X, %s)] struct S { a: i32 }', '#[map(X)] #[child_parents(c: %s)] struct S { #[child(c)] a: i32 }',
                  '#[map(X)] struct S { #[parent(q: %s)] a: P }', '#[map(X)] struct S { #[as_type(%s)] a: i32 }', '#[map(X)] #[where_clause(%s: Clone)] struct S { a: i32 }',
                  '#[map(X)] #[where_clause(T: Into<%s>)] struct S<T> { a: T }', '#[map(X)] #[map(%s)] #[ghosts(%s| g: { 1 })] struct S { #[map(%s| zz)] a: i32 }',
                  '#[into(%s)] enum E { A(i32), B { x: i32 } }', '#[map(X)] struct S { a: %s }', '#[map(X)] struct S(%s, i32);'):
            cases.append(('user-tokens:type', t % tuple([ty] * t.count('%s')), None))
    return cases


def shard_payload(ctx, sh):
    cases = payload_cases()
    if ctx.tier == 'quick':
        cases = [c for i, c in enumerate(cases) if (i + ctx.seed) % 2 == 0]
    differential(ctx, cases[sh['i']::sh['n']], 'user-tokens')


def shard_suite(ctx, sh):
    differential(ctx, [('suite-input', t, None) for t in sh['texts']], 'suite')


def body(ctx):
    ctx.cov['bounds'] = {'templates': sorted(c13.TEMPLATES), 'attribute_shapes': SHAPES, 'neighbouring_attributes': EXTRAS,
                         'symbolic': 'the instruction name: every name of its syntax group (24 trait / 21 member / 3 ghost / 3 ghosts names, or the single name) plus %r' % UNKNOWN,
                         'user_token_corpus': '%d attribute payloads, %d expressions, %d types at every free-token position of the DSL (quick: half, rotated by seed)' % (len(METAS), len(EXPRS), len(TYPES)),
                         'argument_token_corpus': 'checks/kernels_ast.py MEMBER_ARGS / TYPE_ARGS / OTHER + child_parents forms'}
    ctx.cov['stubs'] = ['syn 1.0 and syn 2.0 token-level primitives are models (symx/synmodel.py, flavour chosen by the engine\'s `syn` attribute); everything of the crate runs from the MIR of the respective build',
                        'syn 2\'s own parsing of attribute contents into `Meta` (before the derive runs) is a model: path, then one delimited group | `= expr` | nothing']
    ctx.cov['outside_claim'] = ['attribute syntax that rustc itself rejects before any derive runs (`#[name tokens]`)', 'wording of messages raised inside the parser library',
                                'name-value attributes whose value is not a literal', 'the o2o-macros wrapper (parse_macro_input!) is identical for both features and is not encoded']
    ctx.assumptions = ['each path witness is expanded by both real builds; a back-end disagreement is reported only when the real builds disagree',
                       'a rejection whose messages all come from the parser library is compared by decision only (the property exempts their wording)']
    shards = [{'key': k} for k in sorted(c13.TEMPLATES)]
    ctx.run_shards(shard_templates, shards, syn2=True)
    n = 16
    ctx.run_shards(shard_parse_layer, [{'i': i, 'n': n} for i in range(n)], syn2=True)
    ctx.run_shards(shard_payload, [{'i': i, 'n': n} for i in range(n)], syn2=True)
    texts = c13.suite_texts()
    if ctx.tier == 'quick':
        texts = [t for i, t in enumerate(texts) if (i + ctx.seed) % 3 == 0]
    ctx.run_shards(shard_suite, [{'texts': texts[i::16]} for i in range(16) if texts[i::16]], syn2=True)


if __name__ == '__main__':
    main('C18', body)
