#!/usr/bin/env python3-vt
"""C11 — generics, lifetimes and where-clauses are carried into the impl header  (partial claim: header structure).

The whole derive runs from MIR (crate parsers, TypePath::from, get_quote_trait_params, the six quote_*_trait; syn token
primitives and `Generics`/`GenericParam` printing modelled) on inputs whose trait instruction has a *symbolic name* (24 names -> all
12 kinds) while the generic parameter list of the deriving type, the generic/lifetime arguments of the counterpart path and the
where_clause instructions are forked over menus.  Every impl header is decoded and compared with the property statement:
 (1) every parameter of the type is declared exactly once after `impl`, plus the lifetimes that appear only in the counterpart path,
     plus `'o2o` exactly when the conversion is by reference and the relevant lifetime list is non-empty;
 (2) the type is followed by its parameters in argument form (names only);
 (3) `'o2o` is bounded by exactly the relevant lifetimes and is the lifetime of the `&`;
 (4) the where clause attached is the one dedicated to the counterpart, else the default one.
Type checking itself is rustc's and is NOT decided here.  Every path witness is expanded by the real derive (must match)."""
import sys, os, re
sys.path.insert(0, os.path.dirname(os.path.abspath(__file__)))
from common import *   # noqa
sys.path.insert(0, os.path.join(VERIF, 'oracle'))
import z3
import expander, synmodel, c13, decode, slots, docs
from engine import Ref, Cell, SymStr, Panic
from build import TRAIT_NAMES
from tokens import TS, TIdent, TPunct, TGroup, tokenize

GENS = [('', []), ('<T>', [('ty', 'T')]), ("<'a>", [('lt', "'a")]), ("<'a, T>", [('lt', "'a"), ('ty', 'T')]), ("<T, 'a>".replace("T, 'a", "'a, 'b, T, U"), [('lt', "'a"), ('lt', "'b"), ('ty', 'T'), ('ty', 'U')]),
        ('<T: Clone>', [('ty', 'T')]), ('<T = i32>', [('ty', 'T')]), ('<const N: usize>', [('const', 'N')]), ("<'a: 'b, 'b>", [('lt', "'a"), ('lt', "'b")])]
# (counterpart path, the lifetime *parameters* it names — `'static` and `'_` name none and can be neither declared nor bounds of 'o2o)
CPS = [('X', []), ('X<T>', []), ("X<'a>", ["'a"]), ("X<'c>", ["'c"]), ("m::X<'c, 'd, T>", ["'c", "'d"]), ("X<'a, 'c>", ["'a", "'c"]),
       ("X<'static>", []), ("X<'c, 'static, 'c>", ["'c"]), ("X<'_>", []),
       ("X<&'c str>", ["'c"])]
NESTED = {"X<&'c str>"}          # a lifetime nested inside a type argument of the counterpart path
EXTRA_GENS = [("<'a, 'b: 'a, T: 'a + Clone, const N: usize>", [('lt', "'a"), ('lt', "'b"), ('ty', 'T'), ('const', 'N')]), ('<T, U = T>', [('ty', 'T'), ('ty', 'U')]), ('<T: ?Sized>', [('ty', 'T')])]
EXTRA_CPS = [('m::n::X<T, U>', []), ("X<'a, 'b>", ["'a", "'b"]), ("::m::X<'d>", ["'d"])]
WHERES = [('none', None, None), ('default', 'T: Copy', None), ('dedicated', None, 'T: Copy + Send'), ('both', 'T: Clone', 'T: Copy + Send'), ('both-dedicated-second', 'T: Clone', 'T: Copy + Send')]


def names_of(items):
    """generic parameter / argument list (token list without the outer < >) -> [name]"""
    out = []
    for part in decode.split_top(items, ','):
        if not part:
            continue
        if decode.is_p(part[0], "'"):
            out.append("'" + part[1].name)
        elif decode.is_i(part[0], 'const'):
            out.append(part[1].name)
        else:
            out.append(decode.norm(part))
    return out


def decl_names(items):
    out = []
    for part in decode.split_top(items, ','):
        if not part:
            continue
        if decode.is_p(part[0], "'"):
            out.append("'" + part[1].name)
        elif decode.is_i(part[0], 'const'):
            out.append(part[1].name)
        else:
            out.append(part[0].name if decode.is_i(part[0]) else decode.norm(part))
    return out


def angle_args(items):
    """`S < 'a , T >` -> ('S', inner tokens | None)"""
    for i, t in enumerate(items):
        if decode.is_p(t, '<'):
            return decode.norm(items[:i]), items[i + 1:-1]
    return decode.norm(items), None


def check_header(im, gi, ci, wi, s_name='S'):
    gens_text, gparams = GENS[gi]
    cp_text, cp_lts = CPS[ci]
    wname, wdef, wded = WHERES[wi]
    kind, fallible, cp = slots.impl_key(im)
    by_ref = kind in ('FromRef', 'RefInto', 'RefIntoExisting')
    these_lts = [n for k, n in gparams if k == 'lt']
    ref_lts = (these_lts if kind.startswith('From') else cp_lts) if by_ref else []
    problems = []
    declared = decl_names(im.generics)
    want = [n for k, n in gparams] + [l for l in cp_lts if l not in these_lts] + (["'o2o"] if ref_lts else [])
    if sorted(declared) != sorted(want):
        problems.append(('declared-params', 'declared after impl: %r, expected %r' % (declared, want)))
    # argument form of the deriving type
    self_items = im.self_ty if not kind.startswith('From') else None
    if kind.startswith('From'):
        ty_items = im.self_ty
    else:
        _, ty_items = slots.strip_ref(im.self_ty)
    nm, inner = angle_args(list(ty_items))
    got_args = [] if inner is None else [decode.norm(p) for p in decode.split_top(inner, ',') if p]
    want_args = [n for k, n in gparams if k == 'lt'] + [n for k, n in gparams if k != 'lt']
    if nm != s_name or got_args != want_args:
        problems.append(('argument-form', 'type written as %s, expected %s<%s>' % (decode.norm(ty_items), s_name, ','.join(want_args))))
    # 'o2o bound and use
    if ref_lts:
        decl = [p for p in decode.split_top(im.generics, ',') if p and decode.is_p(p[0], "'") and p[1].name == 'o2o']
        bound = decode.norm(decl[0][3:]) if decl and len(decl[0]) > 2 else ''
        if decl and set(x for x in bound.split('+') if x) != set(ref_lts):       # a repeated bound (`'c + 'c`) is harmless
            problems.append(('o2o-bound', "'o2o bounded by `%s`, expected `%s`" % (bound, '+'.join(ref_lts))))
    ref_side = im.trait_args if kind.startswith('From') else im.self_ty
    if by_ref:
        if not decode.is_p(ref_side[0], '&'):
            problems.append(('ref', 'by-reference impl without &'))
        has_lt = len(ref_side) > 2 and decode.is_p(ref_side[1], "'")
        if bool(ref_lts) != has_lt or (has_lt and ref_side[2].name != 'o2o'):
            problems.append(('o2o-use', 'borrow lifetime is %s, expected %s' % (("'" + ref_side[2].name) if has_lt else 'elided', "'o2o" if ref_lts else 'elided')))
    # where clause
    want_w = wded if wded is not None else wdef
    got_w = decode.norm(im.where) if im.where else None
    if got_w != (decode.norm(tokenize(want_w).items) if want_w else None):
        problems.append(('where-clause', 'where clause `%s`, expected `%s`' % (got_w, want_w)))
    return kind, fallible, problems


def shard_body(ctx, sh):
    e = ctx.engine()
    synmodel.install(e)
    gi = sh['gens']
    combos = [(ci, wi) for ci in range(len(CPS)) for wi in range(len(WHERES))]

    def text_for(ci, wi):
        gens_text = GENS[gi][0]
        cp_text = CPS[ci][0]
        wname, wdef, wded = WHERES[wi]
        ws = []
        if wname == 'both-dedicated-second':
            ws = ['#[where_clause(%s)]' % wdef, '#[where_clause(%s| %s)]' % (cp_text, wded)]
        else:
            if wded:
                ws.append('#[where_clause(%s| %s)]' % (cp_text, wded))
            if wdef:
                ws.append('#[where_clause(%s)]' % wdef)
        return '#[SYM(%s, Er)] %s struct S%s { a: i32 }' % (cp_text, ' '.join(ws), gens_text)

    def run(eng):
        atom = z3.Int('nm')
        eng.assume(z3.And(atom >= 0, atom < len(TRAIT_NAMES)))
        v = z3.Int('combo')
        eng.assume(z3.And(v >= 0, v < len(combos)))
        k = eng.decide([(i, v == i) for i in range(len(combos))])
        ci, wi = combos[k]
        text = text_for(ci, wi)
        eng.aux['c'] = (ci, wi, text)
        di = synmodel.derive_input(eng, text, {'SYM': SymStr(atom, TRAIT_NAMES)})
        try:
            r = eng.call_fn('expand::derive', [Ref(Cell(di))])
        except Panic as ex:
            return ('panic', ex.msg)
        if eng.concretize(r.d, [0, 1]) == 0:
            return ('ok', r.p[0][0])
        return ('err', [m for _, m in r.p[1][0].msgs])
    res = e.explore(run)
    ctx.absorb(e, res)
    dk = docs.doc_kinds()
    wit = []
    for r in res:
        if r.kind != 'ok':
            ctx.inconclusive.append('engine panic in C11: %s' % r.value); continue
        ci, wi, text = r.aux['c']
        mdl = ctx.model_of(r.pc)
        nm = TRAIT_NAMES[mdl.eval(z3.Int('nm'), model_completion=True).as_long()]
        wit.append((r, ci, wi, text.replace('SYM', nm)))
    nat = ctx.replay.run_many([w[3] for w in wit])
    for (r, ci, wi, src), n in zip(wit, nat):
        out = r.value
        okk = (out[0] == 'ok' and n['status'] == 'ok' and expander.flat(out[1]) == expander.flat_text(n['out'])) or (out[0] != 'ok' and n['status'] == out[0])
        if okk:
            ctx.cov['traces_validated_against_impl'] += 1
        else:
            ctx.inconclusive.append('ENCODING-MISMATCH (C11): %s :: engine %s native %s' % (src, out[0], n['status']))
            continue
        if out[0] != 'ok':
            continue
        try:
            impls = decode.split_impls(out[1])
        except ValueError as ex:
            ctx.inconclusive.append('C11: header not decodable: %s' % ex); continue
        for im in impls:
            kind, fallible, problems = check_header(im, gi, ci, wi)
            ctx.cov['queries']['unsat' if not problems else 'sat'] += 1
            if CPS[ci][0] in NESTED:
                problems = [(c, w) for c, w in problems if c == 'declared-params']      # for nested lifetimes only the declaration is judged
            for cls, why in problems:
                gens_text = GENS[gi][0]
                feature = 'bounded-or-defaulted-or-const-param' if re.search(r':|=|const', gens_text) and cls in ('argument-form',) else ('nested-lifetime' if CPS[ci][0] in NESTED else 'plain')
                ctx.violation('impl-header', '%s/%s' % (cls, feature), '%s%s: %s' % (kind, ' (fallible)' if fallible else '', why), {'input': src, 'output': n['out'][:1500]})
    if wit:
        ctx.sample({'input': wit[len(wit) // 2][3], 'generics': GENS[gi][0]})
    ctx.cov['sub_checks']['headers:gens=%s' % GENS[gi][0]] = len(wit)


def body(ctx):
    ctx.cov['bounds'] = {'generic_parameter_lists': [g[0] for g in GENS], 'counterpart_paths': [c[0] for c in CPS], 'where_clauses': [w[0] for w in WHERES], 'instruction_names': 24}
    ctx.cov['stubs'] = ['syn token primitives, Generics / GenericParam printing (symx/synmodel.py, symx/spec.py) — validated per path against the real derive']
    ctx.cov['outside_claim'] = ['whether the impl type-checks (rustc\'s type checker is not encoded): only the header structure the property describes is decided',
                                'generic parameter lists beyond the menu (e.g. where clauses on the type definition itself)']
    ctx.assumptions = ['oracle = the property statement (declared once / argument form / counterpart-only lifetimes / \'o2o rule / dedicated-else-default where clause)']
    if ctx.tier == 'thorough':
        GENS.extend(EXTRA_GENS)
        CPS.extend(EXTRA_CPS)
        ctx.cov['bounds'].update({'generic_parameter_lists': [g[0] for g in GENS], 'counterpart_paths': [c[0] for c in CPS]})
    ctx.run_shards(shard_body, [{'gens': i} for i in range(len(GENS))])


if __name__ == '__main__':
    main('C11', body)
