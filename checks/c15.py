#!/usr/bin/env python3-vt
"""C15 — documented misuse is reported as a compile error, completely, in any context.

Part A (post-parse level, validate::validate from MIR): the `misuse` sweep family injects rule violations into valid bases with
symbolic instruction names / dedication / presence; for every path z3 proves, for each documented rule instance R (oracle/rules.py):
   pc ∧ strict_R  ⇒  R's diagnostic is among the reported ones        (soundness, and aggregation since all R are checked on the same path)
   pc ∧ (a diagnostic of R's family is reported) ⇒ loose_R           (no spurious rejection; an input breaking no rule yields no diagnostic)
Part B (whole derive, real parsers from MIR over the syn model): misplaced / misnamed / unknown instruction names (symbolic name,
bare vs #[o2o(..)] spelling, with and without allow_unknown) yield exactly the documented diagnostic.
Every path witness is expanded by the real derive and must produce the same diagnostics."""
import sys, os, re
sys.path.insert(0, os.path.dirname(os.path.abspath(__file__)))
from common import *   # noqa
sys.path.insert(0, os.path.join(VERIF, 'oracle'))
import z3
import expander, rules
from models import str_eq
from engine import SymStr

HEADER = 'Cannot expand o2o macro'
# diagnostics whose rule is not (yet) encoded in oracle/rules.py: they are neither demanded nor judged here
UNENCODED = (re.compile(r'^Member .* should have member trait instruction'), re.compile(r'^Member trait instruction #\['),
             re.compile(r'^Member .* should have an instruction that specifies'), re.compile(r"^Field '"), re.compile(r'^Member .* of a variant'))


def first_str(m):
    from engine import FmtStr
    if isinstance(m, str):
        return m
    if isinstance(m, FmtStr):
        return m.parts[0] if isinstance(m.parts[0], str) else ''
    return ''


def per_path(ctx, po, sh):
    if po.kind == 'panic':
        return
    msgs = [m for _, m in (po.errors or [])]
    if msgs and msgs[0] == HEADER:
        msgs = msgs[1:]
    rs = rules.R(po.spec, po.env).build()
    pc = po.res.pc
    bad = None
    # soundness + aggregation
    for rid, strict, loose, text in rs:
        reported = z3.Or([z3.BoolVal(c) if isinstance(c, bool) else c for c in [str_eq(m, text) for m in msgs]]) if msgs else z3.BoolVal(False)
        good, mdl = ctx.prove(pc, z3.Implies(strict, reported))
        if not good:
            bad = ('missing-diagnostic', rid, text, mdl)
            break
    # every reported diagnostic is justified
    if bad is None:
        for m in msgs:
            if any(p.match(first_str(m)) for p in UNENCODED):
                ctx.cov['sub_checks']['diagnostics_of_unencoded_rules'] = ctx.cov['sub_checks'].get('diagnostics_of_unencoded_rules', 0) + 1
                continue
            just = [z3.And(loose, c if not isinstance(c, bool) else z3.BoolVal(c)) for rid, strict, loose, text in rs for c in [str_eq(m, text)] if c is not False]
            good, mdl = ctx.prove(pc, z3.Or(just) if just else z3.BoolVal(False))
            if not good:
                bad = ('unjustified-diagnostic', None, m, mdl)
                break
    if bad is None:
        return
    kind, rid, text, mdl = bad
    from spec import Ev
    ev = Ev(po.env, mdl)
    src = po.spec.text(ev)
    nat = ctx.replay.run(src)
    want = expander.inst_str(text, mdl) if not isinstance(text, str) else text
    if nat['status'] == 'panic':
        ctx.inconclusive.append('C15 counterexample panics natively (C16 matter): %s' % src)
        return
    errs = nat['errs'][1:] if nat['status'] == 'err' else []
    confirmed = (want not in errs) if kind == 'missing-diagnostic' else (want in errs)
    if confirmed:
        cls = ('%s:%s' % (kind, (rid or '').split(':')[0])) if rid else '%s:%s' % (kind, re.sub(r"'[^']*'|\b[A-Z]\b", '_', str(want))[:60])
        ctx.violation('validate', cls, ('rule %s broken but `%s` is not reported (reported: %r)' % (rid, want, errs)) if kind == 'missing-diagnostic'
                      else ('`%s` is reported although no documented rule is broken' % want), {'input': src, 'native': nat['errs'] or nat['status']})
    else:
        ctx.inconclusive.append('C15 counterexample not reproduced natively (%s %s): %s -> %r' % (kind, rid, src, nat['errs'] or nat['status']))


# ----------------------------------------------------------------------------------------------- Part B: misplaced / misnamed / unknown names
POSTFIX = ' To turn this message off, use #[o2o(allow_unknown)]'
TYPE_MISNAMED = {'children': 'child_parents', 'ghost': 'ghosts', 'ghost_ref': 'ghosts_ref', 'ghost_owned': 'ghosts_owned', 'child': 'child_parents'}
TYPE_MISPLACED = ['parent', 'as_type', 'literal', 'pattern', 'repeat', 'skip_repeat', 'stop_repeat', 'type_hint']
MEMBER_MISNAMED = {'children': 'child', 'child_parents': 'child'}
MEMBER_MISPLACED = ['where_clause', 'allow_unknown']
UNKNOWN = ['zz_other', 'serde']


def expected_b(level, item, name, own, allow_unknown):
    """documented diagnostic (or None) for one stray instruction name"""
    post = '' if own else POSTFIX
    silenced = (not own) and allow_unknown          # bare instructions are not barked at under allow_unknown
    if level == 'type':
        if name in UNKNOWN:
            return "Struct instruction '%s' is not supported." % name if own else None
        if name == 'children':            # reported regardless of allow_unknown
            return "Perhaps you meant 'child_parents'?" + post
        if silenced:
            return None
        if item == 'enum' and name in ('child', 'parent', 'as_type'):
            return "Member instruction '%s' is not applicable to enums.%s" % (name, post)
        if name in TYPE_MISNAMED:
            return "Perhaps you meant '%s'?%s" % (TYPE_MISNAMED[name], post)
        return "Member instruction '%s' should be used on a member.%s" % (name, post)
    if name in UNKNOWN:
        return "Member instruction '%s' is not supported." % name if own else None
    if silenced:
        return None
    if item == 'enum' and name == 'children':
        return "Struct instruction 'children' is not applicable to enums.%s" % post
    if name in MEMBER_MISNAMED:
        return "Perhaps you meant '%s'?%s" % (MEMBER_MISNAMED[name], post)
    return "Struct instruction '%s' should be used on a struct.%s" % (name, post)


def part_b_shard(ctx, sh):
    import synmodel, c13
    e = ctx.engine()
    synmodel.install(e)
    level, item = sh['level'], sh['item']
    names = (list(TYPE_MISNAMED) + TYPE_MISPLACED + UNKNOWN) if level == 'type' else (list(MEMBER_MISNAMED) + MEMBER_MISPLACED + UNKNOWN)
    if level == 'member' and 'allow_unknown' in names:
        pass
    body = {'struct': 'struct S { %sa: i32 }', 'enum': 'enum S { %sA }'}[item]

    def run(eng):
        atom = z3.Int('nm')
        eng.assume(z3.And(atom >= 0, atom < len(names)))
        own = eng.decide([(i, z3.Int('own') == i) for i in (0, 1)])
        au = eng.decide([(i, z3.Int('au') == i) for i in (0, 1)])
        stray = '#[o2o(SYM(X))] ' if own else '#[SYM(X)] '
        head = '%s#[map(X)] ' % ('#[o2o(allow_unknown)] ' if au else '')
        text = (head + stray + body % '') if level == 'type' else (head + body % stray)
        eng.aux['c'] = (text, own, au)
        return c13.outcome(eng, text, {'SYM': SymStr(atom, names)}, raw=True)
    res = e.explore(run)
    ctx.absorb(e, res)
    for r in res:
        if r.kind != 'ok':
            ctx.inconclusive.append('engine-level panic in C15 part B: %s' % r.value); continue
        text, own, au = r.aux['c']
        out = r.value
        raw = [m for m in (out[1] if out[0] == 'err' else []) if not (isinstance(m, str) and m == HEADER)]
        # which names lie on this path?  the claim must hold for each of them
        s = z3.Solver()
        for c in r.pc:
            s.add(c)
        for ni, nm in enumerate(names):
            s.push(); s.add(z3.Int('nm') == ni)
            if s.check() == z3.sat:
                mdl_n = s.model()
                got = [expander.inst_str(m, mdl_n).replace(POSTFIX, '') for m in raw]
                exp = expected_b(level, item, nm, bool(own), bool(au))
                want = [exp.replace(POSTFIX, '')] if exp else []
                if out[0] == 'panic' or sorted(got) != sorted(want):
                    src = text.replace('SYM', nm)
                    nat = ctx.replay.run(src)
                    nerrs = [m for m in nat['errs'] if m != HEADER]
                    if nat['status'] != 'panic' and sorted(nerrs) != sorted([exp] if exp else []):
                        ctx.violation('stray-instruction:%s' % level, 'name=%s own=%s allow_unknown=%s' % (nm, bool(own), bool(au)),
                                      'documented diagnostic %r, reported %r' % (exp, nerrs), {'input': src, 'native': nat['errs'] or nat['status']})
                    elif nat['status'] != 'panic':
                        ctx.inconclusive.append('C15(B) mismatch not reproduced natively: %s engine=%r native=%r' % (src, got, nerrs))
                else:
                    ctx.cov['queries']['unsat'] += 1
            s.pop()
    # native validation of one witness per path
    wit = []
    for r in res:
        if r.kind != 'ok':
            continue
        mdl = ctx.model_of(r.pc)
        nm = names[mdl.eval(z3.Int('nm'), model_completion=True).as_long()]
        v = r.value
        if v[0] == 'err':
            v = ('err', sorted(expander.inst_str(m, mdl).replace(POSTFIX, '') for m in v[1]), v[2])
        wit.append((r.aux['c'][0].replace('SYM', nm), v))
    for (src, out), nat in zip(wit, ctx.replay.run_many([w[0] for w in wit])):
        n = c13.native_outcome(nat)
        if n[0] == out[0] and (out[0] != 'err' or out[2] or n[1] == out[1]):
            ctx.cov['traces_validated_against_impl'] += 1
        else:
            ctx.inconclusive.append('ENCODING-MISMATCH (C15 B): %s :: %s / %s' % (src, str(out)[:150], str(n)[:150]))
    if wit:
        ctx.sample({'part': 'B', 'input': wit[0][0]})


def body(ctx):
    ctx.cov['outside_claim'] = ['rules R16/R17 (tuple<->named without member names, untyped nested parent): their diagnostics are recognised but not judged (oracle not encoded)',
                                'R18 conflicting trait-level repeat parameters (exercised by C14 as documented errors)', 'diagnostics raised by syn for malformed argument syntax']
    ctx.assumptions = ['oracle/rules.py transcribes the documented rules and the diagnostics expected by o2o-impl/src/tests.rs; where the documentation leaves a condition open the check accepts the widest reading (loose)']
    expander.sweep(ctx, ['misuse'], per_path)
    ctx.run_shards(part_b_shard, [{'level': l, 'item': i} for l in ('type', 'member') for i in ('struct', 'enum')])


if __name__ == '__main__':
    main('C15', body)
