#!/usr/bin/env python3-vt
"""C03 — flattened (child / parent) mappings are faithful; each nested struct is built once.

validate + data_type_impl from MIR over the `child` sweep family (three flat members whose child paths are forked over a menu
including nested (`c1.c2`, `c1.c3`), sibling (`d1`) and prefix-aliasing (`c1` / `c12`) paths — i.e. every interleaving of members —
plus struct-level ghosts addressed by child path, symbolic rename / expression on a member) and the `parent` family (bare,
parameterised and nested #[parent]).  Every generated fn is decoded into a *tree* of constructors / a list of path assignments and
compared with the tree the property statement prescribes: each intermediate struct named in child_parents constructed exactly once,
holding all and only its own members; `counterpart.a.b.field` reads for From; `other.a.b.field = ..` for into_existing; bare
parents through `.into()` / `into_existing`.  Predicted tokens == real tokens on every path."""
import sys, os
sys.path.insert(0, os.path.dirname(os.path.abspath(__file__)))
from common import *   # noqa
import z3
import expander, decode, slots, c01
from decode import is_p, is_i, norm
from spec import Ev, ChildInstr, MapInstr, GhostsInstr, ChildParents, ParentInstr
from tokens import TGroup, tokenize

TYPES = {'C1', 'C2', 'C3', 'D1', 'C12', 'X', 'Y', 'S'}


def parse_tree(items):
    """`Ty { a: e, b: Ty2 { .. }, }` -> ('node', ctor, [(name, subtree|('leaf', text))]) ; raises ValueError on duplicates handled by caller"""
    if items and isinstance(items[-1], TGroup) and items[-1].delim == 'Brace' and len(items) >= 2 and norm(items[:-1]) in TYPES:
        kids = []
        for ent in [e for e in slots.split_at(items[-1].ts.items, ',') if e]:
            if len(ent) >= 2 and is_p(ent[0], '.') and is_p(ent[1], '.'):
                kids.append(('..', ('leaf', norm(ent[2:]))))
            elif len(ent) >= 2 and is_p(ent[1], ':') and not (len(ent) > 2 and is_p(ent[2], ':')):
                kids.append((norm(ent[:1]), parse_tree(ent[2:])))
            else:
                kids.append((None, parse_tree(ent)))
        return ('node', norm(items[:-1]), kids)
    return ('leaf', norm(items))


def flatten(tree, prefix=()):
    """-> ([(path tuple, leaf text)], [constructor paths in order of appearance with their type])"""
    leaves, ctors = [], []
    kind = tree[0]
    if kind == 'leaf':
        return [(prefix, tree[1])], []
    ctors.append((prefix, tree[1]))
    for name, sub in tree[2]:
        l, c = flatten(sub, prefix + (name,))
        leaves += l
        ctors += c
    return leaves, ctors


def expected_child(spec, ev, kind, fallible):
    """the property statement for the `child` family (named shape, struct form): leaves {path: rhs} and constructors {path: type}"""
    tis = []
    for i in spec.type_instrs:
        if hasattr(i, 'inner'):
            i = i.inner(ev(i.ch))
            if i is None:
                continue
        tis.append(i)
    cps = [i for i in tis if isinstance(i, ChildParents)]
    types = {}
    for c in cps:
        for path, ty, hint in c.entries:
            types[tuple(str(m[1]) for m in path)] = ty
    at = 'value' if kind in slots.FROM else 'self'
    leaves, ctors = {}, {(): spec.traits[0].ty}
    for idx, m in enumerate(spec.members):
        ins = []
        for i in m.instrs:
            if hasattr(i, 'inner'):
                i = i.inner(ev(i.ch))
                if i is None:
                    continue
            ins.append(i)
        ch = [i for i in ins if isinstance(i, ChildInstr)]
        path = tuple(str(x[1]) for x in ch[0].path) if ch else ()
        maps = [i for i in ins if isinstance(i, MapInstr)]
        ren = ev(maps[0].member) if maps else None
        act = ev(maps[0].action) if maps else None
        own = m.name
        if kind in slots.FROM:
            r = str(ren[1]) if ren is not None else own
            src = '.'.join(('value',) + path + (r,))
            leaves[(own,)] = slots.subst(act, 'value', src) if act is not None else src
        else:
            slot = str(ren[1]) if ren is not None else own
            rhs = slots.subst(act, 'self', 'self.' + own) if act is not None else 'self.' + own
            leaves[path + (slot,)] = rhs
            for k in range(1, len(path) + 1):
                ctors[path[:k]] = types.get(path[:k], '?')
    if kind not in slots.FROM:
        for g in [i for i in tis if isinstance(i, GhostsInstr)]:
            for gd in g.data:
                path = tuple(str(x[1]) for x in (gd.path or ()))
                leaves[path + (str(gd.ident[1]),)] = slots.subst(gd.action, 'self', None)
                for k in range(1, len(path) + 1):
                    ctors[path[:k]] = types.get(path[:k], '?')
    return leaves, ctors


def per_path(ctx, po, sh):
    if po.kind != 'ok' or sh['family'] != 'child' or po.spec.shape != 'named':
        return
    try:
        impls = decode.split_impls(po.tokens)
        decs = [slots.decode_fn(im) for im in impls]
    except (ValueError, IndexError, KeyError):
        ctx.cov['sub_checks']['undecodable (C17 matter)'] = ctx.cov['sub_checks'].get('undecodable (C17 matter)', 0) + 1
        return
    vars_ = [v for v, _ in po.env.vars.values()]
    models, _ = c01.all_models(ctx, po.res.pc, vars_, cap=8)
    for mdl in models:
        ev = Ev(po.env, mdl)
        for d in decs:
            kind, fallible = d['kind'], d['fallible']
            leaves, ctors = expected_child(po.spec, ev, kind, fallible)
            why = None
            if kind in slots.EXISTING:
                want = sorted(('other.' + '.'.join(p), r) for p, r in leaves.items())
                got = sorted(set(d['assigns']))        # a repeated identical assignment is not forbidden by the statement
                if want != got:
                    why = ('assignments', 'expected %r, generated %r' % (want, got))
            else:
                tree = parse_tree(d['tail_items'])
                got_leaves, got_ctors = flatten(tree)
                if kind in slots.FROM:
                    if sorted(got_leaves) != sorted((p, r) for p, r in leaves.items()):
                        why = ('reads', 'expected %r, generated %r' % (sorted(leaves.items()), sorted(got_leaves)))
                else:
                    paths = [p for p, _ in got_ctors]
                    dup = sorted({p for p in paths if paths.count(p) > 1})
                    if dup:
                        why = ('built-twice', 'intermediate struct(s) %s constructed more than once: %s' % (['.'.join(p) for p in dup], d['tail'][:300]))
                    elif dict(got_ctors) != ctors:
                        why = ('constructors', 'expected %r, generated %r' % (ctors, dict(got_ctors)))
                    elif sorted(got_leaves) != sorted(leaves.items()):
                        why = ('members', 'expected %r, generated %r' % (sorted(leaves.items()), sorted(got_leaves)))
            ctx.cov['queries']['unsat' if why is None else 'sat'] += 1
            if why:
                text = po.spec.text(ev)
                nat = ctx.replay.run(text)
                if nat['status'] == 'ok' and expander.flat_text(nat['out']) == expander.flat(po.tokens):
                    lay = tuple(ev(i.ch) for m in po.spec.members for i in m.instrs if hasattr(i, 'inner'))
                    contiguous = ('non-contiguous-ghost-paths' if sh.get('ghost_order') == 'interleaved' else 'non-contiguous-member-paths') if why[0] == 'built-twice' else 'other'
                    ctx.violation('flattening', '%s/%s/%s' % (why[0], 'from' if kind in slots.FROM else ('existing' if kind in slots.EXISTING else 'into'), contiguous),
                                  '%s: %s' % (kind, why[1]), {'input': text, 'output': nat['out'][:1500], 'layout': list(lay)})
                else:
                    ctx.inconclusive.append('C03 counterexample does not reproduce natively: %s' % text)
                return


def body(ctx):
    ctx.cov['outside_claim'] = ['tuple-shaped flat structs / tuple child_parents hints (positions)', 'parameterised and bare #[parent] are exercised by C16/C17/C07 sweeps but not judged here', 'depth > 2, more than 3 flat members', 'runtime values']
    ctx.assumptions = ['oracle = property statement: every prefix of a child path is one constructor typed by child_parents, holding all and only the members below it', 'decoder is structural; predicted == real tokens per path']
    expander.sweep(ctx, ['child'], per_path)


if __name__ == '__main__':
    main('C03', body)
