#!/usr/bin/env python3-vt
"""C03 — flattened (child / parent) mappings are faithful; each nested struct is built once.

validate + data_type_impl from MIR over the `child` sweep family (three flat members whose child paths are forked over a menu
including nested (`c1.c2`, `c1.c3`), sibling (`d1`) and prefix-aliasing (`c1` / `c12`) paths — i.e. every interleaving of members —
plus struct-level ghosts addressed by child path, symbolic rename / expression on a member) and the `parent` family (bare,
parameterised and nested #[parent]).  Every generated fn is decoded into a *tree* of constructors / a list of path assignments and
compared with the tree the property statement prescribes: each intermediate struct named in child_parents constructed exactly once,
holding all and only its own members; `counterpart.a.b.field` reads for From; `other.a.b.field = ..` for into_existing; bare
parents through `.into()` / `into_existing`.  Predicted tokens == real tokens on every path."""
import sys, os
sys.path.insert(0, os.path.dirname(os.path.abspath(__file__)))
from common import *   # noqa
import z3
import expander, decode, slots, c01
from decode import is_p, is_i, norm
from spec import Ev, ChildInstr, MapInstr, GhostsInstr, ChildParents, ParentInstr
from tokens import TGroup, tokenize

TYPES = {'C1', 'C2', 'C3', 'D1', 'C12', 'X', 'Y', 'S'}


def parse_tree(items):
    """`Ty { a: e, b: Ty2 { .. }, }` -> ('node', ctor, [(name, subtree|('leaf', text))]) ; raises ValueError on duplicates handled by caller"""
    if items and isinstance(items[-1], TGroup) and items[-1].delim == 'Brace' and len(items) >= 2 and norm(items[:-1]) in TYPES:
        kids = []
        for ent in [e for e in slots.split_at(items[-1].ts.items, ',') if e]:
            if len(ent) >= 2 and is_p(ent[0], '.') and is_p(ent[1], '.'):
                kids.append(('..', ('leaf', norm(ent[2:]))))
            elif len(ent) >= 2 and is_p(ent[1], ':') and not (len(ent) > 2 and is_p(ent[2], ':')):
                kids.append((norm(ent[:1]), parse_tree(ent[2:])))
            else:
                kids.append((None, parse_tree(ent)))
        return ('node', norm(items[:-1]), kids)
    return ('leaf', norm(items))


def flatten(tree, prefix=()):
    """-> ([(path tuple, leaf text)], [constructor paths in order of appearance with their type])"""
    leaves, ctors = [], []
    kind = tree[0]
    if kind == 'leaf':
        return [(prefix, tree[1])], []
    ctors.append((prefix, tree[1]))
    for name, sub in tree[2]:
        l, c = flatten(sub, prefix + (name,))
        leaves += l
        ctors += c
    return leaves, ctors


def expected_child(spec, ev, kind, fallible):
    """the property statement for the `child` family (named shape, struct form): leaves {path: rhs} and constructors {path: type}"""
    tis = []
    for i in spec.type_instrs:
        if hasattr(i, 'inner'):
            i = i.inner(ev(i.ch))
            if i is None:
                continue
        tis.append(i)
    cps = [i for i in tis if isinstance(i, ChildParents)]
    types = {}
    for c in cps:
        for path, ty, hint in c.entries:
            types[tuple(str(m[1]) for m in path)] = ty
    at = 'value' if kind in slots.FROM else 'self'
    leaves, ctors = {}, {(): spec.traits[0].ty}
    for idx, m in enumerate(spec.members):
        ins = []
        for i in m.instrs:
            if hasattr(i, 'inner'):
                i = i.inner(ev(i.ch))
                if i is None:
                    continue
            ins.append(i)
        ch = [i for i in ins if isinstance(i, ChildInstr)]
        path = tuple(str(x[1]) for x in ch[0].path) if ch else ()
        maps = [i for i in ins if isinstance(i, MapInstr)]
        ren = ev(maps[0].member) if maps else None
        act = ev(maps[0].action) if maps else None
        own = m.name
        if kind in slots.FROM:
            r = str(ren[1]) if ren is not None else own
            src = '.'.join(('value',) + path + (r,))
            leaves[(own,)] = slots.subst(act, 'value', src) if act is not None else src
        else:
            slot = str(ren[1]) if ren is not None else own
            rhs = slots.subst(act, 'self', 'self.' + own) if act is not None else 'self.' + own
            leaves[path + (slot,)] = rhs
            for k in range(1, len(path) + 1):
                ctors[path[:k]] = types.get(path[:k], '?')
    if kind not in slots.FROM:
        for g in [i for i in tis if isinstance(i, GhostsInstr)]:
            for gd in g.data:
                path = tuple(str(x[1]) for x in (gd.path or ()))
                leaves[path + (str(gd.ident[1]),)] = slots.subst(gd.action, 'self', None)
                for k in range(1, len(path) + 1):
                    ctors[path[:k]] = types.get(path[:k], '?')
    return leaves, ctors


def per_path(ctx, po, sh):
    if po.kind != 'ok' or sh['family'] != 'child' or po.spec.shape != 'named':
        return
    try:
        impls = decode.split_impls(po.tokens)
        decs = [slots.decode_fn(im) for im in impls]
    except (ValueError, IndexError, KeyError):
        ctx.cov['sub_checks']['undecodable (C17 matter)'] = ctx.cov['sub_checks'].get('undecodable (C17 matter)', 0) + 1
        return
    vars_ = [v for v, _ in po.env.vars.values()]
    models, _ = c01.all_models(ctx, po.res.pc, vars_, cap=8)
    for mdl in models:
        ev = Ev(po.env, mdl)
        for d in decs:
            kind, fallible = d['kind'], d['fallible']
            leaves, ctors = expected_child(po.spec, ev, kind, fallible)
            why = None
            if kind in slots.EXISTING:
                want = sorted(('other.' + '.'.join(p), r) for p, r in leaves.items())
                got = sorted(set(d['assigns']))        # a repeated identical assignment is not forbidden by the statement
                if want != got:
                    why = ('assignments', 'expected %r, generated %r' % (want, got))
            else:
                tree = parse_tree(d['tail_items'])
                got_leaves, got_ctors = flatten(tree)
                if kind in slots.FROM:
                    if sorted(got_leaves) != sorted((p, r) for p, r in leaves.items()):
                        why = ('reads', 'expected %r, generated %r' % (sorted(leaves.items()), sorted(got_leaves)))
                else:
                    paths = [p for p, _ in got_ctors]
                    dup = sorted({p for p in paths if paths.count(p) > 1})
                    if dup:
                        why = ('built-twice', 'intermediate struct(s) %s constructed more than once: %s' % (['.'.join(p) for p in dup], d['tail'][:300]))
                    elif dict(got_ctors) != ctors:
                        why = ('constructors', 'expected %r, generated %r' % (ctors, dict(got_ctors)))
                    elif sorted(got_leaves) != sorted(leaves.items()):
                        why = ('members', 'expected %r, generated %r' % (sorted(leaves.items()), sorted(got_leaves)))
            ctx.cov['queries']['unsat' if why is None else 'sat'] += 1
            if why:
                text = po.spec.text(ev)
                nat = ctx.replay.run(text)
                if nat['status'] == 'ok' and expander.flat_text(nat['out']) == expander.flat(po.tokens):
                    lay = tuple(ev(i.ch) for m in po.spec.members for i in m.instrs if hasattr(i, 'inner'))
                    contiguous = ('non-contiguous-ghost-paths' if sh.get('ghost_order') == 'interleaved' else 'non-contiguous-member-paths') if why[0] == 'built-twice' else 'other'
                    ctx.violation('flattening', '%s/%s/%s' % (why[0], 'from' if kind in slots.FROM else ('existing' if kind in slots.EXISTING else 'into'), contiguous),
                                  '%s: %s' % (kind, why[1]), {'input': text, 'output': nat['out'][:1500], 'layout': list(lay)})
                else:
                    ctx.inconclusive.append('C03 counterexample does not reproduce natively: %s' % text)
                return


# ---------------------------------------------------------------------------------------------------- #[parent] (third sentence)
PARENT_TYPES = {'ParT', 'SubT', 'DeepT'}


def pfield_attr(f, kind):
    """the instruction of a parameterised-parent field that takes effect for `kind` (documented chain: the instruction covering
    the kind, else — for into_existing — the one covering the corresponding into kind) -> (that_member | None, action | None)"""
    dk = docs_tables()
    def covers(nm, k):
        return any(kk == k for kk, _ in dk[nm])
    for k in ([kind] + ([{'OwnedIntoExisting': 'OwnedInto', 'RefIntoExisting': 'RefInto'}[kind]] if kind in slots.EXISTING else [])):
        for nm, that, act in f.attrs:
            if covers(nm, k):
                return that, act
    return None, None


_DK = []


def docs_tables():
    if not _DK:
        sys.path.insert(0, os.path.join(VERIF, 'oracle'))
        import docs
        _DK.append(docs.doc_kinds())
    return _DK[0]


def expected_parent(spec, ev, kind, fallible, cp):
    """-> dict(leaves {path: rhs}, ctors {path: type}, pour: None | text of the pour statement, bare: bool)"""
    frm = kind in slots.FROM
    out = {'leaves': {}, 'ctors': {(): 'S' if frm else cp}, 'pour': None, 'bare': False}
    by_ref = kind in ('FromRef', 'RefInto', 'RefIntoExisting')
    for m in spec.members:
        ps = [i for i in m.instrs if isinstance(i, ParentInstr)]
        if not ps:
            maps = [i for i in m.instrs if isinstance(i, MapInstr)]
            ren = ev(maps[0].member) if maps else None
            slot = str(ren[1]) if ren is not None else m.name
            if frm:
                out['leaves'][(m.name,)] = 'value.' + slot
            else:
                out['leaves'][(slot,)] = 'self.' + m.name
            continue
        p = ps[0]
        ded = ev(p.ded)
        if ded is not None and ded != cp:
            # the instruction belongs to another counterpart: an ordinary member here
            if frm:
                out['leaves'][(m.name,)] = 'value.' + m.name
            else:
                out['leaves'][(m.name,)] = 'self.' + m.name
            continue
        if p.fields is None:
            out['bare'] = True
            if frm:
                conv = 'try_into()?' if fallible else 'into()'
                out['leaves'][(m.name,)] = ('value.%s' if by_ref else '(&value).%s') % conv
            else:
                meth = 'try_into_existing' if fallible else 'into_existing'
                recv = '(&(self.%s))' % m.name if by_ref else 'self.%s' % m.name
                dest = 'other' if kind in slots.EXISTING else '&mut obj'
                out['pour'] = '%s.%s(%s)%s' % (recv, meth, dest, '?' if fallible else '')
            continue
        if frm:
            out['ctors'][(m.name,)] = m.ty
        for f in p.fields:
            that, act = pfield_attr(f, kind)
            sub = tuple(str(x[0][1]) for x in f.sub_path)
            own = str(f.this[1])
            if frm:
                for k in range(1, len(sub) + 1):
                    out['ctors'][(m.name,) + sub[:k]] = f.sub_path[k - 1][1]
                src = 'value.' + (str(that[1]) if that is not None else own)
                out['leaves'][(m.name,) + sub + (own,)] = slots.subst(act, 'value', src) if act is not None else src
            else:
                mine = '.'.join(('self', m.name) + sub + (own,))
                out['leaves'][(str(that[1]) if that is not None else own,)] = slots.subst(act, 'self', mine) if act is not None else mine
    return out


def parse_tree_p(items):
    global TYPES
    saved = TYPES
    TYPES = TYPES | PARENT_TYPES
    try:
        return parse_tree(items)
    finally:
        TYPES = saved


def per_path_parent(ctx, po, sh):
    if po.kind != 'ok' or sh['family'] != 'parent' or po.spec.shape != 'named':
        return
    try:
        impls = decode.split_impls(po.tokens)
        decs = [slots.decode_fn(im) for im in impls]
    except (ValueError, IndexError, KeyError):
        ctx.cov['sub_checks']['undecodable (C17 matter)'] = ctx.cov['sub_checks'].get('undecodable (C17 matter)', 0) + 1
        return
    vars_ = [v for v, _ in po.env.vars.values()]
    models, _ = c01.all_models(ctx, po.res.pc, vars_, cap=8)
    for mdl in models:
        ev = Ev(po.env, mdl)
        hints = {t.ty: ev(t.hint) for t in po.spec.traits if isinstance(t.ty, str)}
        for d in decs:
            kind, fallible, cp = d['kind'], d['fallible'], d['cp']
            if hints.get(cp, 'Unspecified') == 'Tuple':
                ctx.cov['sub_checks']['parent: tuple-form counterpart skipped'] = ctx.cov['sub_checks'].get('parent: tuple-form counterpart skipped', 0) + 1
                continue
            exp = expected_parent(po.spec, ev, kind, fallible, cp)
            why = None
            want_flat = sorted(exp['leaves'].items())
            if kind in slots.EXISTING or (exp['bare'] and kind in slots.INTO):
                root = 'other' if kind in slots.EXISTING else 'obj'
                want = sorted((root + '.' + '.'.join(pth), r) for pth, r in exp['leaves'].items())
                got = sorted(set(d['assigns']))
                calls = [c for c in d['calls'] if not c.startswith('letmutobj')]
                pours = [c for c in calls if 'into_existing' in c]
                if want != got:
                    why = ('assignments', 'expected %r, generated %r' % (want, got))
                elif exp['pour'] is None and pours:
                    why = ('pour', 'no bare parent applies, yet the body pours %r' % pours)
                elif exp['pour'] is not None and [decode_norm(x) for x in pours] != [decode_norm(exp['pour'])]:
                    why = ('pour', 'expected exactly `%s`, generated %r' % (exp['pour'], pours))
                elif kind in slots.INTO and d['tail'] != 'obj':
                    why = ('result', 'the value returned is `%s`, expected the poured-into `obj`' % d['tail'])
            else:
                tree = parse_tree_p(d['tail_items'])
                got_leaves, got_ctors = flatten(tree)
                paths = [pth for pth, _ in got_ctors]
                dup = sorted({pth for pth in paths if paths.count(pth) > 1})
                if dup:
                    why = ('built-twice', 'nested struct(s) %s constructed more than once' % ['.'.join(x) for x in dup])
                elif dict(got_ctors) != exp['ctors']:
                    why = ('constructors', 'expected %r, generated %r' % (exp['ctors'], dict(got_ctors)))
                elif sorted((pth, decode_norm(r)) for pth, r in got_leaves) != sorted((pth, decode_norm(r)) for pth, r in exp['leaves'].items()):
                    why = ('members', 'expected %r, generated %r' % (want_flat, sorted(got_leaves)))
            ctx.cov['queries']['unsat' if why is None else 'sat'] += 1
            if why:
                text = po.spec.text(ev)
                nat = ctx.replay.run(text)
                if nat['status'] == 'ok' and expander.flat_text(nat['out']) == expander.flat(po.tokens):
                    ctx.violation('parent', '%s/%s/%s' % (why[0], 'from' if kind in slots.FROM else ('existing' if kind in slots.EXISTING else 'into'), sh['variant']),
                                  '%s%s for %s: %s' % (kind, ' (fallible)' if fallible else '', cp, why[1]), {'input': text, 'output': nat['out'][:1500]})
                else:
                    ctx.inconclusive.append('C03 (parent) counterexample does not reproduce natively: %s' % text)
                return


def decode_norm(s):
    return norm(tokenize(s).items) if isinstance(s, str) else s


def per_path_both(ctx, po, sh):
    if sh['family'] == 'child':
        per_path(ctx, po, sh)
    else:
        per_path_parent(ctx, po, sh)


def body(ctx):
    ctx.cov['outside_claim'] = ['tuple-shaped flat structs / tuple child_parents hints (positions)', '#[parent] with a tuple-form counterpart; nested parents deeper than 2', 'depth > 2, more than 3 flat members', 'runtime values']
    ctx.assumptions = ['oracle = property statement: every prefix of a child path is one constructor typed by child_parents, holding all and only the members below it', 'decoder is structural; predicted == real tokens per path']
    expander.sweep(ctx, ['child', 'parent'], per_path_both, judge_native=True)


if __name__ == '__main__':
    main('C03', body)
