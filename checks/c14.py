#!/usr/bin/env python3-vt
"""C14 — repeat / skip_repeat / stop_repeat equal writing the instructions out.

Relational, through the whole derive executed from MIR (ast.rs `multiple_from_syn` propagation, attr.rs trait-level merging loop,
the crate's own parsers; syn token primitives modelled): input A carries repeat / skip_repeat / stop_repeat markers whose placement,
category filter and permeate flag are forked choices; input B is A *written out* by an independent implementation of the
property statement (write_out_* below).  Both are expanded under one path condition and must agree token for token
(or in their diagnostics).  Every joint path is re-run on the real derive."""
import sys, os, itertools
sys.path.insert(0, os.path.dirname(os.path.abspath(__file__)))
from common import *   # noqa
import z3
import expander, synmodel, c13
from engine import Ref, Cell, Panic

CATS = ['map', 'child', 'parent', 'ghost', 'type_hint']
# repeat options: None = no repeat; else (permeate, selected categories or 'all')
R_OPTS_FIELD = [None, (False, 'all'), (False, ('map',)), (False, ('child', 'ghost'))]
R_OPTS_ENUM_FIELD = [None, (False, 'all'), (True, 'all'), (True, ('map',))]
R_OPTS_VARIANT = [None, (False, 'all'), (False, ('type_hint',)), (False, ('map', 'ghost'))]


def cat_of(instr):
    nm = instr.split('(')[0].split(']')[0].strip('#[ ')
    if nm.startswith('ghost'):
        return 'ghost'
    if nm in ('child', 'parent', 'type_hint'):
        return nm
    return 'map'


def rep_text(r):
    if r is None:
        return ''
    perm, sel = r
    parts = (['permeate()'] if perm else []) + ([] if sel == 'all' else list(sel))
    return '#[repeat(%s)] ' % ', '.join(parts) if parts else '#[repeat] '


class M:
    """a member: own instructions + flags"""

    def __init__(self, own, rep=None, skip=False, stop=False):
        self.own, self.rep, self.skip, self.stop = list(own), rep, skip, stop


def propagate(members, carrier=None):
    """the property statement, as a function: -> (list of effective instruction lists, carrier left at the end, ill-formed?)
    carrier = (instructions by category of the repeating member, its selection, permeate)"""
    out = []
    bad = False
    for m in members:
        if m.stop:
            carrier = None
        if m.rep is not None:
            if carrier is not None and not m.stop:
                bad = True            # documented as an error: previous repeat must be terminated
            carrier = (list(m.own), m.rep[1], m.rep[0])
            out.append(list(m.own))
        elif carrier is not None and not m.skip:
            sel = CATS if carrier[1] == 'all' else carrier[1]
            out.append(list(m.own) + [i for i in carrier[0] if cat_of(i) in sel])
        else:
            out.append(list(m.own))
    return out, carrier, bad


def member_text_A(m, decl):
    return '%s%s%s%s %s' % (rep_text(m.rep), '#[skip_repeat] ' if m.skip else '', '#[stop_repeat] ' if m.stop else '', ' '.join(m.own), decl)


def member_text_B(instrs, decl):
    return '%s %s' % (' '.join(instrs), decl)


# ----------------------------------------------------------------------------------------------- member-level shards
STRUCT_OWN = [['#[into(~.clone())]', '#[child(c)]', '#[ghost_owned({ 7 })]'], [], ['#[from(~ + 1)]'], ['#[child(d)]']]


def field_shard(ctx, sh):
    e = ctx.engine()
    synmodel.install(e)
    n = sh['n']
    head = '#[map(X)] #[into_existing(X)] #[child_parents(c: C, d: D)]'
    opts = list(itertools.product(range(len(R_OPTS_FIELD)), (0, 1), (0, 1)))

    def run(eng):
        ms = []
        for i in range(n):
            v = z3.Int('m%d' % i)
            eng.assume(z3.And(v >= 0, v < len(opts)))
            if i == 0:
                eng.assume(v == sh['first'])
            k = eng.decide([(j, v == j) for j in range(len(opts))])
            r, sk, st = opts[k]
            ms.append(M(STRUCT_OWN[i % len(STRUCT_OWN)], R_OPTS_FIELD[r], bool(sk), bool(st)))
        eff, _, bad = propagate(ms)
        shape = sh['shape']
        decls = ['f%d: i32' % i if shape == 'named' else 'i32' for i in range(n)]
        wrap = (lambda body: 'struct S { %s }' % body) if shape == 'named' else (lambda body: 'struct S(%s);' % body)
        ta = '%s %s' % (head, wrap(', '.join(member_text_A(m, d) for m, d in zip(ms, decls))))
        tb = '%s %s' % (head, wrap(', '.join(member_text_B(x, d) for x, d in zip(eff, decls))))
        eng.aux['t'] = (ta, tb, bad)
        return c13.outcome(eng, ta, {}), c13.outcome(eng, tb, {})
    res = e.explore(run, max_paths=300000)
    ctx.absorb(e, res)
    judge(ctx, res, 'field-repeat')


def enum_shard(ctx, sh):
    """two variants; field-level repeat (optionally permeating) and variant-level repeat at the same time"""
    e = ctx.engine()
    synmodel.install(e)
    head = '#[map(X)]'
    fopts = list(itertools.product(range(len(R_OPTS_ENUM_FIELD)), (0, 1), (0, 1)))
    vopts = list(itertools.product(range(len(R_OPTS_VARIANT)), (0, 1), (0, 1)))
    FOWN = [['#[map(~.clone())]', '#[ghost_owned({ 7 })]'], [], ['#[from(~ + 1)]']]
    VOWN = [['#[type_hint(as {})]', '#[map(Zz)]'], [], []]

    def run(eng):
        fs, vs = [], []
        for i in range(3):
            fo = fopts if i < 2 else [o for o in fopts if o[0] in (0, 2)]
            v = z3.Int('f%d' % i)
            eng.assume(z3.And(v >= 0, v < len(fo)))
            if i == 0:
                eng.assume(v == sh['first'])
            k = eng.decide([(j, v == j) for j in range(len(fo))])
            r, sk, st = fo[k]
            fs.append(M(FOWN[i], R_OPTS_ENUM_FIELD[r], bool(sk), bool(st)))
        for i in range(2 if sh['variants'] else 0):
            vo = [o for o in vopts if (o[1] == 0 and o[2] == 0)] if i == 0 else [o for o in vopts if o[0] == 0]
            v = z3.Int('v%d' % i)
            eng.assume(z3.And(v >= 0, v < len(vo)))
            k = eng.decide([(j, v == j) for j in range(len(vo))])
            r, sk, st = vo[k]
            vs.append(M(VOWN[i], R_OPTS_VARIANT[r], bool(sk), bool(st)))
        while len(vs) < 2:
            vs.append(M([]))
        # variant A holds fields 0,1 ; variant B holds field 2.  Field repeat survives the variant boundary only with permeate()
        effA, carrier, bad1 = propagate(fs[:2])
        if carrier is not None and not carrier[2]:
            carrier = None
        effB, _, bad2 = propagate(fs[2:], carrier)
        veff, _, bad3 = propagate(vs)
        named = sh['named']

        def fdecl(i):
            return ('x%d: i32' % i) if named else 'i32'

        def vbody(parts):
            return ('{ %s }' % ', '.join(parts)) if named else ('(%s)' % ', '.join(parts))
        ta = '%s enum E { %s A%s, %s B%s }' % (head, member_text_A(vs[0], '').strip(), vbody([member_text_A(fs[0], fdecl(0)), member_text_A(fs[1], fdecl(1))]),
                                               member_text_A(vs[1], '').strip(), vbody([member_text_A(fs[2], fdecl(2))]))
        tb = '%s enum E { %s A%s, %s B%s }' % (head, ' '.join(veff[0]), vbody([member_text_B(effA[0], fdecl(0)), member_text_B(effA[1], fdecl(1))]),
                                               ' '.join(veff[1]), vbody([member_text_B(effB[0], fdecl(2))]))
        eng.aux['t'] = (ta, tb, bad1 or bad2 or bad3)
        return c13.outcome(eng, ta, {}), c13.outcome(eng, tb, {})
    res = e.explore(run, max_paths=300000)
    ctx.absorb(e, res)
    judge(ctx, res, 'enum-repeat')


# ----------------------------------------------------------------------------------------------- trait-level repeat(...)
T_SEL = [None, 'all', ('vars',), ('update',), ('quick_return',), ('default_case',), ('vars', 'default_case')]
T_PARAMS = {'vars': 'vars(v: { 1 })', 'update': '..__u(@)', 'quick_return': 'return __r(@)', 'default_case': '_ => __d(@)'}


def trait_shard(ctx, sh):
    e = ctx.engine()
    synmodel.install(e)
    item = sh['item']
    names = sh['names']
    own_sets = sh['own']          # parameters the (potential) carrier instruction carries
    opts_by_pos = [list(itertools.product(range(len(T_SEL)), (0,), (0,))),          # 1st: any selection
                   list(itertools.product((0, 1), (0, 1), (0, 1))),                 # 2nd: none / repeat() x skip x stop
                   list(itertools.product((0,), (0, 1), (0, 1)))]                   # 3rd: skip x stop
    tys = ['X', 'Y', 'Z']

    def params_text(ps):
        # vars / flags first, then the one trailing parameter
        order = ['vars', 'update', 'quick_return', 'default_case']
        return [T_PARAMS[p] for p in order if p in ps]

    def run(eng):
        flags = []
        for i in range(3):
            opts = opts_by_pos[i]
            v = z3.Int('t%d' % i)
            eng.assume(z3.And(v >= 0, v < len(opts)))
            k = eng.decide([(j, v == j) for j in range(len(opts))])
            flags.append(opts[k])
        carrier = {}
        a_parts, b_parts = [], []
        ill = False
        for i in range(3):
            nm = names[i]
            sel_i, sk, st = flags[i]
            sel = T_SEL[sel_i]
            own = own_sets[i]
            if st:
                carrier.pop(nm, None)
            eff = list(own)
            if sel is not None:
                if nm in carrier and not st:
                    ill = True
                carrier[nm] = (list(own), ['vars', 'update', 'quick_return', 'default_case'] if sel == 'all' else list(sel))
            elif nm in carrier and not sk:
                c_own, c_sel = carrier[nm]
                for p in c_sel:
                    if p in eff:
                        ill = True              # selected category already present on the later instruction: the documented "will be overriden" conflict, outside the equivalence
                    elif p in c_own:
                        eff.append(p)
                    # a selected parameter the carrier does not have: nothing to copy
            fl = []
            if sel is not None:
                fl.append('repeat(%s)' % ('' if sel == 'all' else ', '.join(sel)))
            if sk:
                fl.append('skip_repeat')
            if st:
                fl.append('stop_repeat')
            pa = [x for x in params_text(own) if x.startswith('vars')] + fl + [x for x in params_text(own) if not x.startswith('vars')]
            pb = params_text(eff)
            trailing = [p for p in eff if p != 'vars']
            if len(trailing) > 1:
                ill = True              # cannot be written out: only one of ..update / return / _ fits in one instruction
            tyt = tys[i] + (', Er' if 'try' in nm else '')
            a_parts.append('#[%s(%s%s)]' % (nm, tyt, ('| ' + ', '.join(pa)) if pa else ''))
            b_parts.append('#[%s(%s%s)]' % (nm, tyt, ('| ' + ', '.join(pb)) if pb else ''))
        ta, tb = item.replace('{ATTRS}', ' '.join(a_parts)), item.replace('{ATTRS}', ' '.join(b_parts))
        eng.aux['t'] = (ta, tb, ill)
        return c13.outcome(eng, ta, {}), c13.outcome(eng, tb, {})
    res = e.explore(run, max_paths=300000)
    ctx.absorb(e, res)
    judge(ctx, res, 'trait-repeat')


def judge(ctx, res, site):
    wit = []
    for r in res:
        if r.kind != 'ok':
            ctx.inconclusive.append('engine-level panic in %s: %s' % (site, r.value)); continue
        a, b = r.value
        ta, tb, ill = r.aux['t']
        if ill:
            ctx.cov['sub_checks'][site + ':ill-formed (documented errors, outside the equivalence)'] = ctx.cov['sub_checks'].get(site + ':ill-formed (documented errors, outside the equivalence)', 0) + 1
            continue
        wit.append((a, b, ta, tb))
    rs = ctx.replay.run_many([w[2] for w in wit] + [w[3] for w in wit])
    n = len(wit)
    for i, (a, b, ta, tb) in enumerate(wit):
        na, nb = c13.native_outcome(rs[i]), c13.native_outcome(rs[n + i])
        for pred, nat, t in ((a, na, ta), (b, nb, tb)):
            agree = pred[0] == nat[0] and (pred[0] != 'ok' or pred[1] == nat[1]) and (pred[0] != 'err' or pred[2] or pred[1] == nat[1])
            if agree:
                ctx.cov['traces_validated_against_impl'] += 1
            else:
                ctx.inconclusive.append('ENCODING-MISMATCH (%s): %s :: engine %s / native %s' % (site, t, str(pred)[:160], str(nat)[:160]))
        eq = c13.same(a, b)
        ctx.cov['queries']['unsat' if eq else 'sat'] += 1
        if not eq:
            if not c13.same(na, nb):
                cls = 'A=%s/B=%s' % (na[0], nb[0])
                ctx.violation(site, cls, 'repeat form and written-out form expand differently: %s  vs  %s' % (str(na)[:250], str(nb)[:250]), {'inputs': [ta, tb]})
            else:
                ctx.inconclusive.append('%s difference not reproduced natively: %s | %s' % (site, ta, tb))
    if wit:
        w = wit[(len(wit) * 5) // 7]
        ctx.sample({'site': site, 'with_repeat': w[2], 'written_out': w[3], 'equal': c13.same(w[0], w[1])})


def body(ctx):
    ctx.cov['bounds'] = {'struct': '3 (quick) / 4 (thorough) members, each: repeat in {none, all, map, child+ghost} x skip_repeat x stop_repeat', 'enum': '2 variants, 3 payload fields with field-level repeat in {none, all, permeate, permeate(map)} and variant-level repeat',
                         'trait': '3 instructions (same or mixed names), each: repeat(sel) with 6 selections x skip_repeat x stop_repeat; carrier parameters vars/update/quick_return/default_case'}
    ctx.cov['stubs'] = ['syn token primitives (symx/synmodel.py)']
    ctx.cov['outside_claim'] = ['placements the documentation declares erroneous (second repeat without stop_repeat; repeated parameter already present) — counted, not compared',
                                'parent category at member level', 'more members than the bound']
    ctx.assumptions = ['write_out (propagate) transcribes the property statement, not ast.rs', 'library + syn models; every joint path re-run natively']
    n = 3 if ctx.tier == 'quick' else 4
    shards = []
    for shape in ('named', 'tuple'):
        for first in range(16):
            if ctx.tier == 'quick' and shape == 'tuple' and (first + ctx.seed) % 4:
                continue
            shards.append(('field', {'n': n, 'shape': shape, 'first': first}))
    for named in (True, False):
        for variants in (False, True):
            for first in range(16):
                if ctx.tier == 'quick' and ((first + ctx.seed + named + variants) % 4 or (variants and first % 8)):
                    continue
                if variants and ctx.tier == 'thorough' and first % 2:
                    continue
                shards.append(('enum', {'named': named, 'variants': variants, 'first': first}))
    st_item, en_item = '{ATTRS} struct S { a: i32 }', '{ATTRS} enum E { A, #[literal(1)] B }'
    # mixed fallibility: `from` and `try_from` cover the same kinds but are different names — nothing may be copied between them
    for names in (['map', 'map', 'map'], ['from', 'map', 'from'], ['try_into', 'try_into', 'try_into'], ['from', 'try_from', 'from'], ['try_map', 'map', 'try_map'], ['into', 'try_into', 'try_into']):
        for own in ([['vars', 'update'], [], []], [['quick_return'], [], ['vars']], [['vars'], ['update'], []]):
            it = st_item
            nm2 = [n if not n.startswith('try') else n for n in names]
            shards.append(('trait', {'item': it.replace('(X', '(X') if not names[0].startswith('try') else it, 'names': names, 'own': own}))
    for own in ([['default_case'], [], []], [['vars', 'default_case'], [], []], [['quick_return'], ['default_case'], []]):
        shards.append(('trait', {'item': '{ATTRS} enum E { A, #[literal(1)] #[pattern(_)] B }'.replace(' #[pattern(_)]', ''), 'names': ['from', 'from', 'from'], 'own': own}))
    ctx.run_shards(dispatch_shard, [{'kind': k, **d} for k, d in shards])


def dispatch_shard(ctx, sh):
    k = sh['kind']
    if k == 'field':
        field_shard(ctx, sh)
    elif k == 'enum':
        enum_shard(ctx, sh)
    else:
        if sh['names'][0].startswith('try'):
            sh = dict(sh)
        trait_shard(ctx, sh)


if __name__ == '__main__':
    main('C14', body)
