#!/usr/bin/env python3-vt
"""C04 — each trait instruction yields exactly the documented set of trait impls.

K <= 2/3 trait instructions with *symbolic names* (24 names each) for distinct counterparts (plain / qualified / generic path,
bare tuple) and symbolic presence of the error type; validate + data_type_impl run from MIR.  Per accepted path the impl
headers are decoded and z3 proves  pc => (for every instruction, its name is one whose documented impl set — README list and
shortcut table, oracle/docs.py — equals the set observed for its counterpart, with `type Error` = the declared error type)."""
import sys, os, re
sys.path.insert(0, os.path.dirname(os.path.abspath(__file__)))
from common import *   # noqa
sys.path.insert(0, os.path.join(VERIF, 'oracle'))
import z3
import expander, decode, docs
from tokens import TPunct, TIdent

TRAITS = {'::core::convert::From': ('From', False), '::core::convert::TryFrom': ('From', True), '::core::convert::Into': ('Into', False),
          '::core::convert::TryInto': ('Into', True), 'o2o::traits::IntoExisting': ('IntoExisting', False), 'o2o::traits::TryIntoExisting': ('IntoExisting', True)}


def strip_ref(items):
    if items and decode.is_p(items[0], '&'):
        items = items[1:]
        if len(items) >= 2 and decode.is_p(items[0], "'"):
            items = items[2:]
        return True, items
    return False, items


def observe(po):
    """-> {counterpart text: set((kind, fallible, error text|None))}"""
    obs = {}
    for im in decode.split_impls(po.tokens):
        if im.trait_name not in TRAITS:
            raise ValueError('impl of unexpected trait ' + im.trait_name)
        tname, fallible = TRAITS[im.trait_name]
        body = decode.parse_impl_body(im)
        if tname == 'From':
            by_ref, cp = strip_ref(im.trait_args)
            kind = 'FromRef' if by_ref else 'FromOwned'
        else:
            by_ref, _ = strip_ref(im.self_ty)
            cp = im.trait_args
            kind = ('RefInto' if by_ref else 'OwnedInto') if tname == 'Into' else ('RefIntoExisting' if by_ref else 'OwnedIntoExisting')
        err = decode.norm(body.error_ty) if body.error_ty is not None else None
        obs.setdefault(decode.norm(cp), set()).add((kind, fallible, err))
    return obs


def per_path(ctx, po, sh):
    if po.kind != 'ok':
        return
    from spec import Ev
    dk = docs.doc_kinds()
    try:
        obs = observe(po)
    except ValueError as e:
        ctx.violation('impl-structure', 'undecodable', str(e), {'input': po.text, 'output': (po.native or {}).get('out')})
        return
    n_impls = sum(len(v) for v in obs.values())
    all_cps = set()
    claims = []
    for t in po.spec.traits:
        cp = ('(%s)' % t.ty[1].replace(' ', '')) if isinstance(t.ty, tuple) else t.ty.replace(' ', '') + (t.ty_generics.text().replace(' ', '') if t.ty_generics else '')
        all_cps.add(cp)
        o = obs.get(cp, set())
        okinds = {(k, f) for k, f, _ in o}
        errs = {e for _, _, e in o}
        v, ch = po.env.vars[t.name.name]
        ev_, ech = po.env.vars[t.err.name]
        declared = [d for d in ech.dom if d is not None][0].replace(' ', '')
        good_names = [i for i, nm in enumerate(ch.dom) if dk[nm] == okinds]
        c = z3.Or([v == i for i in good_names]) if good_names else z3.BoolVal(False)
        if any(f for _, f in okinds):
            c = z3.And(c, z3.BoolVal(errs == {declared}))
        else:
            c = z3.And(c, z3.BoolVal(errs <= {None}))
        claims.append(c)
    extra = set(obs) - all_cps
    claim = z3.And(claims + [z3.BoolVal(not extra)])
    good, mdl = ctx.prove(po.res.pc, claim)
    if not good:
        ev = Ev(po.env, mdl)
        text = po.spec.text(ev)
        nat = ctx.replay.run(text)
        names = [ev(t.name) for t in po.spec.traits]
        if nat['status'] == 'ok' and expander.flat_text(nat['out']) == expander.flat(po.tokens):
            want = {n: sorted(dk[n]) for n in names}
            ctx.violation('impl-set', 'names=%s' % ','.join(sorted(set(names))), 'observed impls %s ; documented %s' % ({k: sorted(map(str, v)) for k, v in obs.items()}, want),
                          {'input': text, 'output': nat['out'][:1500]})
        else:
            ctx.inconclusive.append('C04 counterexample did not reproduce natively: %s' % text)
    ctx.cov['sub_checks']['impl_headers_decoded'] = ctx.cov['sub_checks'].get('impl_headers_decoded', 0) + n_impls


# ----------------------------------------------------------------------------------------------- order independence through the real attribute-collection loop
def order_shard(ctx, sh):
    """whole derive (real Parse impls and get_data_type_attrs from MIR, syn primitives modelled): the impl set of a list of trait
    instructions does not depend on their order, on how they are grouped into #[o2o(..)] lists, or on an `allow_unknown` marker"""
    import itertools, synmodel, c13
    from engine import SymStr
    from build import TRAIT_NAMES
    e = ctx.engine()
    synmodel.install(e)
    item = sh['item']
    instrs = ['SYM(X, Er)', 'from_ref(Y)', 'owned_into_existing(Z)']
    variants = []
    for perm in itertools.permutations(range(3)):
        lst = [instrs[i] for i in perm]
        variants.append(' '.join('#[%s]' % x for x in lst))
        variants.append('#[o2o(%s)]' % ', '.join(lst))
        for pos in range(4):
            l2 = lst[:pos] + ['allow_unknown'] + lst[pos:]
            variants.append('#[o2o(%s)]' % ', '.join(l2))
    variants = variants[sh['lo']:sh['hi']]
    base = ' '.join('#[%s]' % x for x in instrs)

    def run(eng):
        atom = z3.Int('nm')
        eng.assume(z3.And(atom >= 0, atom < len(TRAIT_NAMES)))
        vi = z3.Int('vi')
        eng.assume(z3.And(vi >= 0, vi < len(variants)))
        k = eng.decide([(i, vi == i) for i in range(len(variants))])
        sym = {'SYM': SymStr(atom, TRAIT_NAMES)}
        ta, tb = item.replace('{ATTRS}', base), item.replace('{ATTRS}', variants[k])
        eng.aux['t'] = (ta, tb)
        return c13.outcome(eng, ta, sym), c13.outcome(eng, tb, sym)
    res = e.explore(run)
    ctx.absorb(e, res)

    def headers(o):
        if o[0] != 'ok':
            return o
        # multiset of impl items, each as its flat token tuple
        from tokens import TS
        items, cur = [], []
        for t in o[1]:
            if t == ('I', 'impl') and cur:
                items.append(tuple(cur)); cur = []
            cur.append(t)
        if cur:
            items.append(tuple(cur))
        return ('ok', sorted(map(str, items)))
    wit = []
    for r in res:
        if r.kind != 'ok':
            ctx.inconclusive.append('engine panic in C04 order part: %s' % r.value); continue
        a, b = r.value
        mdl = ctx.model_of(r.pc)
        nm = TRAIT_NAMES[mdl.eval(z3.Int('nm'), model_completion=True).as_long()]
        ta, tb = r.aux['t']
        wit.append((headers(a), headers(b), ta.replace('SYM', nm), tb.replace('SYM', nm)))
    rs = ctx.replay.run_many([w[2] for w in wit] + [w[3] for w in wit])
    n = len(wit)
    for i, (a, b, ta, tb) in enumerate(wit):
        na, nb = headers(c13.native_outcome(rs[i])), headers(c13.native_outcome(rs[n + i]))
        for pred, nat, t in ((a, na, ta), (b, nb, tb)):
            if pred[0] == nat[0] and (pred[0] != 'ok' or pred[1] == nat[1]):
                ctx.cov['traces_validated_against_impl'] += 1
            else:
                ctx.inconclusive.append('ENCODING-MISMATCH (C04 order): %s :: %s / %s' % (t, str(pred)[:150], str(nat)[:150]))
        eq = c13.same(a, b) if a[0] != 'ok' else a == b
        ctx.cov['queries']['unsat' if eq else 'sat'] += 1
        if not eq:
            neq = (na != nb) if na[0] == 'ok' else not c13.same(na, nb)
            if neq:
                ctx.violation('instruction-order', 'impl-set-differs', 'same instructions, different order/grouping, different impls: %s vs %s' % (str(na)[:200], str(nb)[:200]), {'inputs': [ta, tb]})
            else:
                ctx.inconclusive.append('C04 order difference not reproduced natively: %s | %s' % (ta, tb))
    if wit:
        ctx.sample({'part': 'order', 'base': wit[0][2], 'variant': wit[-1][3]})
    ctx.cov['sub_checks']['order_variants'] = ctx.cov['sub_checks'].get('order_variants', 0) + len(variants)


# ---- whole derive: the declared error type (any path form) must be the `type Error` and the Err side of the result
E_ERRS = ['Er', 'm::Er', 'Er<T>', "Er<'a>", 'm::Er<T, U>', '::m::Er', 'Er<X<T>>']
E_ITEMS = ["struct S<'a, T, U> { a: &'a T, b: U }", 'enum E<T> { A(T), B }']


def error_type_shard(ctx, sh):
    import synmodel, c13
    from engine import SymStr
    from build import TRAIT_NAMES
    e = ctx.engine()
    synmodel.install(e)
    item = E_ITEMS[sh['item']]
    uni = [n for n in TRAIT_NAMES if n.startswith('try') and not (item.startswith('enum') and 'existing' in n)]

    def run(eng):
        atom = z3.Int('nm')
        eng.assume(z3.And(atom >= 0, atom < len(uni)))
        ev = z3.Int('er')
        eng.assume(z3.And(ev >= 0, ev < len(E_ERRS)))
        k = eng.decide([(i, ev == i) for i in range(len(E_ERRS))])
        text = '#[SYM(X<T>, %s)] %s' % (E_ERRS[k], item)
        eng.aux['w'] = (text, k)
        return c13.outcome(eng, text, {'SYM': SymStr(atom, uni)})
    res = e.explore(run)
    ctx.absorb(e, res)
    wit = []
    for r in res:
        if r.kind != 'ok':
            ctx.inconclusive.append('engine panic in C04 (error types): %s' % r.value); continue
        text, k = r.aux['w']
        mdl = ctx.model_of(r.pc)
        wit.append((r, text.replace('SYM', uni[mdl.eval(z3.Int('nm'), model_completion=True).as_long()]), k))
    nat = ctx.replay.run_many([w[1] for w in wit])
    nows = lambda x: re.sub(r'\s+', '', x)
    for (r, src, k), n in zip(wit, nat):
        out = r.value
        if (out[0] == 'ok' and n['status'] == 'ok' and out[1] == expander.flat_text(n['out'])) or (out[0] != 'ok' and n['status'] == out[0]):
            ctx.cov['traces_validated_against_impl'] += 1
        else:
            ctx.inconclusive.append('ENCODING-MISMATCH (C04 error types): %s :: engine %s native %s' % (src, out[0], n['status']))
            continue
        if n['status'] != 'ok' or not (n['parse'] or '').startswith('ok'):
            continue
        want = nows(E_ERRS[k])
        for im in n['impls']:
            tys = [x for x in im['items'].split(' ;; ') if x.startswith('type:Error:')]
            fns = [x for x in im['items'].split(' ;; ') if x.startswith('fn:')]
            got = nows(tys[0].split(':', 2)[2]) if tys else None
            sig = nows(fns[0].split(':', 2)[2]) if fns else ''
            okk = got == want and sig.endswith(',%s>' % want)
            ctx.cov['queries']['unsat' if okk else 'sat'] += 1
            if not okk:
                form = 'generic-arguments' if '<' in E_ERRS[k] else 'path'
                ctx.violation('error-type', form, 'declared error type `%s`, generated `type Error = %s` and signature `%s`' % (E_ERRS[k], got, sig[-60:]), {'input': src, 'impl': im['text'][:1000]})
    if wit:
        ctx.sample({'part': 'error types (whole derive)', 'input': wit[len(wit) // 2][1]})
    ctx.cov['sub_checks']['error_type_paths'] = ctx.cov['sub_checks'].get('error_type_paths', 0) + len(wit)


def body(ctx):
    ctx.cov['outside_claim'] = ['more than 3 instructions', 'two instructions for the same counterpart (duplicates are C15)', 'error types beyond the menu of the error-type part']
    ctx.assumptions = ['oracle: README list of 12 kinds + shortcut table parsed at check time (oracle/docs.py)', 'library models; predicted == real output per path']
    expander.sweep(ctx, ['c04'], per_path)
    shards = []
    for item in ('{ATTRS} struct S { a: i32 }', '{ATTRS} enum E { A }'):
        for lo in range(0, 36, 6 if ctx.tier == 'thorough' else 12):
            shards.append({'item': item, 'lo': lo, 'hi': lo + (6 if ctx.tier == 'thorough' else 4)})
    ctx.run_shards(order_shard, shards)
    ctx.cov['bounds']['error_types'] = {'declared': E_ERRS, 'items': E_ITEMS, 'instruction_name': 'symbolic over the 12 fallible names'}
    ctx.run_shards(error_type_shard, [{'item': i} for i in range(len(E_ITEMS))])


if __name__ == '__main__':
    main('C04', body)
