#!/usr/bin/env python3-vt
"""C04 — each trait instruction yields exactly the documented set of trait impls.

K <= 2/3 trait instructions with *symbolic names* (24 names each) for distinct counterparts (plain / qualified / generic path,
bare tuple) and symbolic presence of the error type; validate + data_type_impl run from MIR.  Per accepted path the impl
headers are decoded and z3 proves  pc => (for every instruction, its name is one whose documented impl set — README list and
shortcut table, oracle/docs.py — equals the set observed for its counterpart, with `type Error` = the declared error type)."""
import sys, os, re
sys.path.insert(0, os.path.dirname(os.path.abspath(__file__)))
from common import *   # noqa
sys.path.insert(0, os.path.join(VERIF, 'oracle'))
import z3
import expander, decode, docs
from tokens import TPunct, TIdent

TRAITS = {'::core::convert::From': ('From', False), '::core::convert::TryFrom': ('From', True), '::core::convert::Into': ('Into', False),
          '::core::convert::TryInto': ('Into', True), 'o2o::traits::IntoExisting': ('IntoExisting', False), 'o2o::traits::TryIntoExisting': ('IntoExisting', True)}


def strip_ref(items):
    if items and decode.is_p(items[0], '&'):
        items = items[1:]
        if len(items) >= 2 and decode.is_p(items[0], "'"):
            items = items[2:]
        return True, items
    return False, items


def observe(po):
    """-> {counterpart text: set((kind, fallible, error text|None))}"""
    obs = {}
    for im in decode.split_impls(po.tokens):
        if im.trait_name not in TRAITS:
            raise ValueError('impl of unexpected trait ' + im.trait_name)
        tname, fallible = TRAITS[im.trait_name]
        body = decode.parse_impl_body(im)
        if tname == 'From':
            by_ref, cp = strip_ref(im.trait_args)
            kind = 'FromRef' if by_ref else 'FromOwned'
        else:
            by_ref, _ = strip_ref(im.self_ty)
            cp = im.trait_args
            kind = ('RefInto' if by_ref else 'OwnedInto') if tname == 'Into' else ('RefIntoExisting' if by_ref else 'OwnedIntoExisting')
        err = decode.norm(body.error_ty) if body.error_ty is not None else None
        obs.setdefault(decode.norm(cp), set()).add((kind, fallible, err))
    return obs


def per_path(ctx, po, sh):
    if po.kind != 'ok':
        return
    from spec import Ev
    dk = docs.doc_kinds()
    try:
        obs = observe(po)
    except ValueError as e:
        ctx.violation('impl-structure', 'undecodable', str(e), {'input': po.text, 'output': (po.native or {}).get('out')})
        return
    n_impls = sum(len(v) for v in obs.values())
    all_cps = set()
    claims = []
    for t in po.spec.traits:
        cp = ('(%s)' % t.ty[1].replace(' ', '')) if isinstance(t.ty, tuple) else t.ty.replace(' ', '') + (t.ty_generics.text().replace(' ', '') if t.ty_generics else '')
        all_cps.add(cp)
        o = obs.get(cp, set())
        okinds = {(k, f) for k, f, _ in o}
        errs = {e for _, _, e in o}
        v, ch = po.env.vars[t.name.name]
        ev_, ech = po.env.vars[t.err.name]
        declared = [d for d in ech.dom if d is not None][0].replace(' ', '')
        good_names = [i for i, nm in enumerate(ch.dom) if dk[nm] == okinds]
        c = z3.Or([v == i for i in good_names]) if good_names else z3.BoolVal(False)
        if any(f for _, f in okinds):
            c = z3.And(c, z3.BoolVal(errs == {declared}))
        else:
            c = z3.And(c, z3.BoolVal(errs <= {None}))
        claims.append(c)
    extra = set(obs) - all_cps
    claim = z3.And(claims + [z3.BoolVal(not extra)])
    good, mdl = ctx.prove(po.res.pc, claim)
    if not good:
        ev = Ev(po.env, mdl)
        text = po.spec.text(ev)
        nat = ctx.replay.run(text)
        names = [ev(t.name) for t in po.spec.traits]
        if nat['status'] == 'ok' and expander.flat_text(nat['out']) == expander.flat(po.tokens):
            want = {n: sorted(dk[n]) for n in names}
            ctx.violation('impl-set', 'names=%s' % ','.join(sorted(set(names))), 'observed impls %s ; documented %s' % ({k: sorted(map(str, v)) for k, v in obs.items()}, want),
                          {'input': text, 'output': nat['out'][:1500]})
        else:
            ctx.inconclusive.append('C04 counterexample did not reproduce natively: %s' % text)
    ctx.cov['sub_checks']['impl_headers_decoded'] = ctx.cov['sub_checks'].get('impl_headers_decoded', 0) + n_impls


def body(ctx):
    ctx.cov['outside_claim'] = ['more than 3 instructions', 'two instructions for the same counterpart (duplicates are C15)', 'generic error types are probed by kernels (TypePath::from) not by this sweep']
    ctx.assumptions = ['oracle: README list of 12 kinds + shortcut table parsed at check time (oracle/docs.py)', 'library models; predicted == real output per path']
    expander.sweep(ctx, ['c04'], per_path)


if __name__ == '__main__':
    main('C04', body)
