"""Shared plumbing for the per-property checks: tiers, seeds, evidence, known findings,
native replay through crates/replay, exit codes (0 held / 1 VIOLATION / 2 inconclusive)."""
import json, os, subprocess, sys, time, hashlib, random, traceback

VERIF = os.path.dirname(os.path.dirname(os.path.abspath(__file__)))
sys.path.insert(0, os.path.join(VERIF, 'symx'))
sys.path.insert(0, os.path.join(VERIF, 'checks'))
REPO = os.environ.get('VERIF_REPO', '/repo')

import z3  # noqa: E402


class Inconclusive(Exception):
    pass


# --------------------------------------------------------------------------- native replay

class Replay:
    """drives the real o2o_impl::expand::derive (built from /repo's current tree)"""
    BIN = os.path.join(VERIF, 'target', 'replay', 'release', 'o2o-replay')
    CRATE, TARGET = 'replay', 'replay'

    def __init__(self, syn=1):
        if syn == 2:      # the same helper linked against o2o-impl built with the `syn2` feature
            self.BIN = os.path.join(VERIF, 'target', 'replay2', 'release', 'o2o-replay2')
            self.CRATE, self.TARGET = 'replay2', 'replay2'
        self.built = False
        self.proc = None
        self.n = 0
        self.count = 0

    def build(self):
        if self.built:
            return
        env = dict(os.environ, CARGO_NET_OFFLINE='true')
        env.pop('RUSTUP_TOOLCHAIN', None)
        p = subprocess.run(['cargo', 'build', '--release', '--offline', '--target-dir', os.path.join(VERIF, 'target', self.TARGET)],
                           cwd=os.path.join(VERIF, 'crates', self.CRATE), env=env, stdout=subprocess.PIPE, stderr=subprocess.PIPE, text=True)
        if p.returncode != 0:
            raise Inconclusive('replay helper does not build against /repo: ' + p.stderr[-2000:])
        self.built = True

    def run_many(self, texts):
        self.build()
        inp = ''.join('%d\t%s\n' % (i, t.replace('\n', ' ').replace('\t', ' ')) for i, t in enumerate(texts))
        p = subprocess.run([self.BIN], input=inp, stdout=subprocess.PIPE, stderr=subprocess.PIPE, text=True)
        res, cur = {}, None

        def unesc(s):
            return s.replace('\\n', '\n').replace('\\t', '\t').replace('\\\\', '\\')
        for ln in p.stdout.split('\n'):
            if ln.startswith('BEGIN '):
                cur = {'status': None, 'errs': [], 'impls': [], 'items': [], 'out': None, 'parse': None, 'msg': None}
                res[int(ln[6:])] = cur
            elif cur is None:
                continue
            elif ln.startswith('STATUS '):
                cur['status'] = ln[7:]
            elif ln.startswith('MSG '):
                cur['msg'] = unesc(ln[4:])
            elif ln.startswith('ERR '):
                cur['errs'].append(unesc(ln[4:]))
            elif ln.startswith('OUT '):
                cur['out'] = unesc(ln[4:])
            elif ln.startswith('PARSE '):
                cur['parse'] = ln[6:]
            elif ln.startswith('IMPL '):
                f = ln[5:].split('\t')
                cur['impls'].append({'trait': unesc(f[0]), 'self_ty': unesc(f[1]), 'generics': unesc(f[2]), 'items': unesc(f[3]), 'text': unesc(f[4])})
            elif ln.startswith('ITEM '):
                cur['items'].append(unesc(ln[5:]))
        out = []
        for i in range(len(texts)):
            r = res.get(i)
            if r is None or r['status'] is None:
                r = {'status': 'crash', 'errs': [], 'impls': [], 'items': [], 'out': None, 'parse': None, 'msg': 'helper produced no answer (aborted?)'}
            out.append(r)
        self.count += len(texts)
        return out

    def run(self, text):
        return self.run_many([text])[0]


# --------------------------------------------------------------------------- known findings

def load_known():
    p = os.path.join(VERIF, 'known_findings.json')
    if not os.path.exists(p):
        return []
    return json.load(open(p))


# --------------------------------------------------------------------------- check context

class Ctx:
    def __init__(self, prop, tier=None, seed=None):
        self.prop = prop
        self.tier = tier or os.environ.get('VERIF_TIER') or 'quick'
        if self.tier not in ('quick', 'thorough'):
            self.tier = 'quick'
        self.seed = int(seed if seed is not None else os.environ.get('VERIF_SEED', '0') or 0)
        self.rng = random.Random(self.seed)
        self.t0 = time.time()
        self.replay = Replay()
        self.replay2 = Replay(syn=2)
        self.known = [k for k in load_known() if k.get('property') == prop and 'fixed' not in k]
        self.violations = []          # dicts: site, input_class, detail, replay(dict)
        self.known_hits = {}
        self.inconclusive = []
        self.cov = {'states': 0, 'transitions': 0, 'traces_validated_against_impl': 0, 'samples': [],
                    'queries': {'unsat': 0, 'sat': 0, 'unknown': 0}, 'solver_s': 0.0,
                    'functions_encoded': set(), 'models_used': set(), 'bounds': {}, 'stubs': [], 'outside_claim': [],
                    'sub_checks': {}}
        self.assumptions = []
        self._prep = None
        self._prep2 = None
        self.engines = []

    # ---- engine
    def prep(self):
        if self._prep is None:
            from prep import prepare
            try:
                self._prep = prepare()
            except RuntimeError as e:
                raise Inconclusive(str(e))
        return self._prep

    def prep2(self):
        """the MIR of o2o-impl built with the `syn2` feature"""
        if self._prep2 is None:
            from prep import prepare
            try:
                self._prep2 = prepare(feature='syn2')
            except RuntimeError as e:
                raise Inconclusive(str(e))
        return self._prep2

    def engine(self, syn=1):
        from engine import Engine
        P = self.prep() if syn == 1 else self.prep2()
        e = Engine(P['mir'], P['src'], syn=syn)
        self.engines.append(e)
        return e

    def absorb(self, e, results):
        """account an engine exploration into the evidence"""
        self.cov['states'] += len(results)
        self.cov['transitions'] += sum(len(r.decisions) for r in results)
        self.cov['functions_encoded'] |= set(e.encoded)
        self.cov['models_used'] |= set(e.models_used)
        self.cov['solver_s'] += e.stats['solver_s']
        e.stats['solver_s'] = 0.0

    # ---- solver query with accounting
    def prove(self, pc, claim, timeout_ms=20000):
        """is pc ∧ ¬claim unsat?  -> (True, None) | (False, model) ; unknown -> Inconclusive"""
        t = time.time()
        s = z3.Solver()
        s.set('timeout', timeout_ms)
        for c in pc:
            s.add(c)
        if claim is True:
            self.cov['queries']['unsat'] += 1
            return True, None
        s.add(z3.Not(claim) if claim is not False else z3.BoolVal(True))
        r = s.check()
        self.cov['solver_s'] += time.time() - t
        self._cross_check(s, r)
        if r == z3.unsat:
            self.cov['queries']['unsat'] += 1
            return True, None
        if r == z3.sat:
            self.cov['queries']['sat'] += 1
            return False, s.model()
        self.cov['queries']['unknown'] += 1
        raise Inconclusive('solver returned unknown')

    def _cross_check(self, solver, verdict):
        """second opinion on a sample of the property queries: the same SMT-LIB text is given to cvc5 (every query in the
        thorough tier up to a cap, every 40th in the quick tier); a disagreement between the two solvers is inconclusive"""
        self._nq = getattr(self, '_nq', 0) + 1
        every = 1 if self.tier == 'thorough' else 40
        done = self.cov['sub_checks'].get('queries_cross_checked_with_cvc5', 0)
        if self._nq % every or done >= (400 if self.tier == 'thorough' else 25) or verdict == z3.unknown:
            return
        try:
            txt = '(set-logic ALL)\n' + solver.to_smt2()
            p = subprocess.run(['cvc5', '--lang', 'smt2', '--tlimit=20000'], input=txt, text=True, stdout=subprocess.PIPE, stderr=subprocess.PIPE, timeout=40)
        except (OSError, subprocess.TimeoutExpired):
            return
        out = p.stdout.strip().split('\n')[0] if p.stdout.strip() else ''
        if '(error' in p.stdout or '(error' in p.stderr or out not in ('sat', 'unsat'):
            self.cov['sub_checks']['cvc5_no_answer'] = self.cov['sub_checks'].get('cvc5_no_answer', 0) + 1
            return
        self.cov['sub_checks']['queries_cross_checked_with_cvc5'] = done + 1
        if out != str(verdict):
            raise Inconclusive('z3 says %s, cvc5 says %s on the same query' % (verdict, out))

    def model_of(self, pc, extra=()):
        s = z3.Solver()
        s.set('timeout', 20000)
        s.set('random_seed', self.seed % 1000)
        for c in pc:
            s.add(c)
        for c in extra:
            s.add(c)
        r = s.check()
        self._cross_check(s, r)
        if r != z3.sat:
            return None
        return s.model()

    # ---- results
    def sample(self, x):
        if len(self.cov['samples']) < 12:
            self.cov['samples'].append(x)

    def violation(self, site, input_class, detail, replay):
        for k in self.known:
            if k.get('site') == site and k.get('input_class') == input_class:
                self.known_hits.setdefault((site, input_class), {'n': 0, 'what': k.get('what') or k.get('note') or detail})
                self.known_hits[(site, input_class)]['n'] += 1
                return
        self.violations.append({'site': site, 'input_class': input_class, 'detail': detail, 'replay': replay})

    # ---- sharding (one process per shard, results merged as plain data)
    def export(self):
        cov = dict(self.cov)
        cov['functions_encoded'] = sorted(cov['functions_encoded'])
        cov['models_used'] = sorted(cov['models_used'])
        return {'cov': cov, 'violations': self.violations, 'known_hits': {('%s\x00%s' % k): v for k, v in self.known_hits.items()},
                'inconclusive': self.inconclusive, 'replays': self.replay.count + self.replay2.count}

    def merge(self, ex):
        c = ex['cov']
        for k in ('states', 'transitions', 'traces_validated_against_impl'):
            self.cov[k] += c[k]
        for k in ('unsat', 'sat', 'unknown'):
            self.cov['queries'][k] += c['queries'][k]
        self.cov['solver_s'] += c['solver_s']
        self.cov['functions_encoded'] |= set(c['functions_encoded'])
        self.cov['models_used'] |= set(c['models_used'])
        for x in c['samples']:
            self.sample(x)
        for k, v in c['sub_checks'].items():
            self.cov['sub_checks'][k] = self.cov['sub_checks'].get(k, 0) + v
        self.violations.extend(ex['violations'])
        for k, v in ex['known_hits'].items():
            site, cls = k.split('\x00')
            h = self.known_hits.setdefault((site, cls), {'n': 0, 'what': v['what']})
            h['n'] += v['n']
        self.inconclusive.extend(ex['inconclusive'])
        self.replay.count += ex['replays']

    def run_shards(self, fn, shards, procs=None, syn2=False):
        """fn(sub_ctx, shard) in worker processes; shards: list of picklable descriptions"""
        import multiprocessing as mp
        self.prep()
        self.replay.build()
        if syn2:
            self.prep2()
            self.replay2.build()
        procs = procs or int(os.environ.get('VERIF_PROCS', '0')) or min(16, os.cpu_count() or 4)
        procs = max(1, min(procs, len(shards)))
        args = [(self.prop, self.tier, self.seed, (self._prep, self._prep2), fn.__module__, fn.__name__, sh) for sh in shards]
        if procs == 1:
            outs = [_shard_worker(a) for a in args]
        else:
            with mp.get_context('fork').Pool(procs) as pool:
                outs = pool.map(_shard_worker, args, chunksize=1)
        for o in outs:
            self.merge(o)
        self.cov['bounds']['shards'] = len(shards)

    def finish(self):
        wall = time.time() - self.t0
        cov = dict(self.cov)
        cov['functions_encoded'] = sorted(cov['functions_encoded'])
        cov['models_used'] = sorted(cov['models_used'])
        cov['native_replays'] = self.replay.count + self.replay2.count
        cov['known_findings_hit'] = [{'site': k[0], 'input_class': k[1], 'paths': v['n']} for k, v in self.known_hits.items()]
        if not cov['samples']:
            cov['samples'] = ['(no sample recorded)']
        cov['states'] = max(cov['states'], 0)
        ev = {'property_id': self.prop, 'tier': self.tier, 'seed': self.seed, 'level': 'model_checking',
              'coverage': cov, 'assumptions': self.assumptions, 'wall_s': round(wall, 2), 'violations': len(self.violations)}
        if self.inconclusive:
            ev['coverage']['inconclusive'] = self.inconclusive[:20]
        os.makedirs(os.path.join(VERIF, 'evidence'), exist_ok=True)
        with open(os.path.join(VERIF, 'evidence', self.prop + '.json'), 'w') as f:
            json.dump(ev, f, indent=1, default=str)
        for (site, cls), v in sorted(self.known_hits.items()):
            print('KNOWN-FINDING: property=%s %s [site=%s class=%s paths=%d]' % (self.prop, v['what'], site, cls, v['n']))
        code = 0
        if self.violations:
            d = os.path.join(VERIF, 'replays', self.prop)
            os.makedirs(d, exist_ok=True)
            seen = set()
            for i, v in enumerate(self.violations):
                key = (v['site'], v['input_class'])
                if key in seen:
                    continue
                seen.add(key)
                h = hashlib.sha1(json.dumps([v['site'], v['input_class']], sort_keys=True).encode()).hexdigest()[:10]
                p = os.path.join(d, '%s.json' % h)
                with open(p, 'w') as f:
                    json.dump({'property': self.prop, **v}, f, indent=1, default=str)
                print('VIOLATION property=%s replay=%s' % (self.prop, p))
                print('  site=%s class=%s :: %s' % (v['site'], v['input_class'], str(v['detail'])[:400]))
            code = 1
            for m in self.inconclusive[:5]:
                print('INCONCLUSIVE (besides the violations): ' + str(m)[:500])
        elif self.inconclusive:
            for m in self.inconclusive[:10]:
                print('INCONCLUSIVE: ' + str(m)[:500])
            code = 2
        q = cov['queries']
        print('%s tier=%s seed=%d paths=%d queries(unsat=%d sat=%d unknown=%d) native_replays=%d wall=%.1fs -> exit %d' % (
            self.prop, self.tier, self.seed, cov['states'], q['unsat'], q['sat'], q['unknown'], self.replay.count + self.replay2.count, wall, code))
        return code


def _shard_worker(a):
    prop, tier, seed, prep, mod, fname, shard = a
    import importlib
    from engine import Unsupported, PathLimit
    sub = Ctx(prop, tier, seed)
    sub._prep, sub._prep2 = prep
    sub.replay.built = True
    sub.replay2.built = sub._prep2 is not None
    try:
        m = sys.modules.get(mod) or sys.modules.get('__main__')
        fn = getattr(m, fname, None)
        if fn is None:
            m = importlib.import_module(mod)
            fn = getattr(m, fname)
        fn(sub, shard)
    except Inconclusive as e:
        sub.inconclusive.append('shard %r: %s' % (shard, e))
    except (Unsupported, PathLimit) as e:
        sub.inconclusive.append('shard %r: %s: %s' % (shard, type(e).__name__, e))
    except Exception as e:
        sub.inconclusive.append('shard %r: internal error %r\n%s' % (shard, e, traceback.format_exc()[-1500:]))
    return sub.export()


def main(prop, body):
    import argparse
    ap = argparse.ArgumentParser()
    ap.add_argument('--tier', default=None)
    ap.add_argument('--replay', default=None)
    a = ap.parse_args()
    ctx = Ctx(prop, a.tier)
    try:
        if a.replay:
            rp = json.load(open(a.replay))
            texts = rp['replay'].get('inputs') or [rp['replay'].get('input')]
            for t, r in zip(texts, ctx.replay.run_many(texts)):
                print('INPUT ', t)
                print('RESULT', json.dumps(r)[:3000])
            if prop == 'C18':
                for t, r in zip(texts, ctx.replay2.run_many(texts)):
                    print('RESULT (syn2 build)', json.dumps(r)[:3000])
            print('recorded detail:', rp.get('detail'))
            sys.exit(1)
        body(ctx)
    except Inconclusive as e:
        ctx.inconclusive.append(str(e))
    except Exception as e:
        from engine import Unsupported, PathLimit
        if isinstance(e, (Unsupported, PathLimit)):
            ctx.inconclusive.append('%s: %s' % (type(e).__name__, e))
        else:
            traceback.print_exc()
            ctx.inconclusive.append('internal error: %r' % (e,))
    sys.exit(ctx.finish())
