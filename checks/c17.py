#!/usr/bin/env python3-vt
"""C17 — accepted inputs expand to syntactically valid impl items of the right shape.

The solver's part is the path partition of validate+data_type_impl (each path = a class of accepted inputs with one
output skeleton); for every accepted path the witness is expanded by the real derive, its output parsed with
syn::parse_file (in crates/replay), and each item checked against the documented shape of the six traits.
The same check is applied to the *predicted* token tree, so a skeleton that only my model produces would be noticed."""
import sys, os, re
sys.path.insert(0, os.path.dirname(os.path.abspath(__file__)))
from common import *   # noqa
import expander

SIX = {'::core::convert::From': ('from', False, 'from'), '::core::convert::TryFrom': ('try_from', True, 'from'),
       '::core::convert::Into': ('into', False, 'into'), '::core::convert::TryInto': ('try_into', True, 'into'),
       'o2o::traits::IntoExisting': ('into_existing', False, 'ex'), 'o2o::traits::TryIntoExisting': ('try_into_existing', True, 'ex')}


def nows(s):
    return re.sub(r'\s+', '', s)


def shape_errors(impl):
    tr = nows(impl['trait'])
    m = re.match(r'([\w:]+)<(.*)>$', tr)
    if not m or m.group(1) not in SIX:
        return ['impl of an unexpected trait: %s' % impl['trait']]
    fname, fallible, dirn = SIX[m.group(1)]
    arg = m.group(2)
    selfty = nows(impl['self_ty'])
    items = [x for x in impl['items'].split(' ;; ') if x]
    fns = [x for x in items if x.startswith('fn:')]
    tys = [x for x in items if x.startswith('type:')]
    errs = []
    if len(fns) != 1 or [x for x in items if x == 'other']:
        errs.append('expected exactly one method, got %r' % items)
        return errs
    _, name, sig = fns[0].split(':', 2)
    sig = nows(sig)
    if name != fname:
        errs.append('method %s in impl of %s' % (name, m.group(1)))
    if fallible:
        if len(tys) != 1 or not tys[0].startswith('type:Error:'):
            errs.append('fallible impl without exactly one `type Error`')
            return errs
        ety = nows(tys[0].split(':', 2)[2])
    elif tys:
        errs.append('infallible impl with associated type')
    if dirn == 'from':
        want = 'fn%s(value:%s)->%s' % (fname, arg, ('::core::result::Result<%s,%s>' % (selfty, ety)) if fallible else selfty)
    elif dirn == 'into':
        want = 'fn%s(self)->%s' % (fname, ('::core::result::Result<%s,%s>' % (arg, ety)) if fallible else arg)
    else:
        want = 'fn%s(self,other:&mut%s)%s' % (fname, arg, ('->::core::result::Result<(),%s>' % ety) if fallible else '')
    if sig != want:
        errs.append('signature `%s` differs from documented `%s`' % (sig, want))
    return errs


def config_features_ev(po, ev):
    return _features(po, ev)


def config_features(ctx, po):
    """-> (inconsistent: [..], defects: [..]) from the witness configuration (roles, not lines).
    `inconsistent` = the user asked for something Rust syntax cannot express for the counterpart form in play
    (outside the claim, see DESIGN.md C17); `defects` = configurations known to expand to invalid code."""
    from spec import Ev
    mdl = ctx.model_of(po.res.pc)
    ev = Ev(po.env, mdl)
    return _features(po, ev)


def _features(po, ev):
    from spec import GhostsInstr, ParentInstr, MapInstr, SimpleInstr
    spec = po.spec
    inc, feats = [], []
    named_g = any(isinstance(i, GhostsInstr) and any(d.ident[0] == 'n' for d in i.data) for i in spec.type_instrs)
    index_g = any(isinstance(i, GhostsInstr) and any(d.ident[0] == 'i' for d in i.data) for i in spec.type_instrs)
    bare_parent = spec.kind == 'struct' and any(isinstance(i, ParentInstr) and i.fields is None for m in spec.members for i in m.instrs)
    nested_named_parent = spec.kind == 'struct' and spec.shape == 'tuple' and any(isinstance(i, ParentInstr) and i.fields is not None and any(f.sub_path and f.sub_path[0][0][0] == 'n' for f in i.fields) for m in spec.members for i in m.instrs)

    def idx_rename(members):
        for m in members:
            for i in m.instrs:
                if isinstance(i, MapInstr):
                    r = ev(i.member)
                    if r is not None and r[0] == 'i':
                        return True
        return False
    forms = set()
    for t in spec.traits:
        nm = ev(t.name)
        upd = ev(t.update) is not None
        hint = 'Tuple' if isinstance(t.ty, tuple) else ev(t.hint)
        existing = nm.endswith('into_existing')
        into = ('into' in nm or 'map' in nm) and not existing
        eff_tuple = hint == 'Tuple' or (hint == 'Unspecified' and spec.kind == 'struct' and spec.shape == 'tuple')
        forms.add('tuple' if eff_tuple else ('unit' if hint == 'Unit' else 'struct'))
        if spec.kind == 'enum' and existing:
            feats.append('enum+into_existing')
        if existing and upd:
            feats.append('into_existing+update')
        if nested_named_parent and ('from' in nm or 'map' in nm):
            feats.append('tuple-root+named-nested-parent')
        if bare_parent and into and eff_tuple:
            feats.append('bare-parent+tuple-form')
        if spec.kind == 'struct' and eff_tuple and upd:
            inc.append('tuple-form+update')
        if spec.kind == 'struct' and (into or existing) and eff_tuple and named_g:
            inc.append('tuple-form+named-ghosts')
        if spec.kind == 'struct' and (into or existing) and not eff_tuple and index_g:
            inc.append('struct-form+indexed-ghosts')
    if spec.kind == 'struct' and 'struct' in forms and idx_rename(spec.members):
        inc.append('struct-form+index-rename')

    def name_rename(members):
        for m in members:
            for i in m.instrs:
                if hasattr(i, 'inner'):
                    i = i.inner(ev(i.ch))
                if isinstance(i, MapInstr):
                    r = ev(i.member)
                    if r is not None and r[0] == 'n':
                        return True
        return False
    if spec.kind == 'struct' and 'tuple' in forms and name_rename(spec.members):
        inc.append('tuple-form+name-rename')
    if spec.kind == 'enum':
        for v in spec.members:
            hints = [ev(i.arg) for i in v.instrs if isinstance(i, SimpleInstr) and i.kind == 'type_hint']
            vform = set()
            for h in (hints or ['Unspecified']):
                vform.add({'Struct': 'struct', 'Tuple': 'tuple', 'Unit': 'unit'}.get(h, 'struct' if v.shape == 'named' else ('tuple' if v.shape == 'tuple' else 'unit')))
            if hints:
                vform.add('struct' if v.shape == 'named' else ('tuple' if v.shape == 'tuple' else 'unit'))    # a dedicated hint leaves the other counterpart on the own form
            if any(isinstance(i, SimpleInstr) and i.kind == 'pattern' for i in v.instrs) and any(isinstance(i, MapInstr) and ev(i.action) is None for i in v.instrs) \
                    and any(('into' in ev(t.name) or 'map' in ev(t.name)) and not ev(t.name).endswith('existing') for t in spec.traits):
                feats.append('pattern-variant+into-without-expression')
            if v.shape == 'tuple' and 'Struct' in hints and any(isinstance(i, MapInstr) and ev(i.member) is None and ev(i.action) is not None for f in (v.fields or []) for i in f.instrs) \
                    and any('from' in ev(t.name) or 'map' in ev(t.name) for t in spec.traits):
                feats.append('tuple-variant+struct-hint+action-only-field')
            if 'struct' in vform and idx_rename(v.fields or []):
                inc.append('struct-form-variant+index-rename')
            if 'unit' in vform and (v.fields or []):
                inc.append('unit-form-variant+payload')
    return inc, feats


def classify_parse_failure(ctx, po, feats):
    for pr in ('enum+into_existing', 'into_existing+update', 'bare-parent+tuple-form', 'tuple-root+named-nested-parent', 'tuple-variant+struct-hint+action-only-field', 'pattern-variant+into-without-expression'):
        if pr in feats:
            return 'output-does-not-parse', pr
    return 'output-does-not-parse', 'other: ' + (po.native['parse'] or '')[:60]


def per_path(ctx, po, sh):
    if po.kind != 'ok' or po.native is None or po.native['status'] != 'ok':
        return
    nat = po.native
    if not nat['parse'] or not nat['parse'].startswith('ok'):
        inc, feats = config_features(ctx, po)
        if inc:
            ctx.cov['sub_checks']['skipped_form_inconsistent'] = ctx.cov['sub_checks'].get('skipped_form_inconsistent', 0) + 1
            return
        site, cls = classify_parse_failure(ctx, po, feats)
        ctx.violation(site, cls, 'accepted input expands to tokens that are not a sequence of items: %s' % (nat['parse'],), {'input': po.text, 'output': nat['out'][:1500], 'parse': nat['parse']})
        return
    if nat['items']:
        ctx.violation('non-impl-item', 'item', 'output contains a non-impl item', {'input': po.text, 'output': nat['out'][:1500]})
    for im in nat['impls']:
        errs = shape_errors(im)
        if errs:
            ctx.violation('impl-shape', errs[0].split(' ')[0] + ' ' + errs[0].split(' ')[1], '; '.join(errs), {'input': po.text, 'impl': im['text'][:1200]})
    ctx.cov['sub_checks']['impls_shape_checked'] = ctx.cov['sub_checks'].get('impls_shape_checked', 0) + len(nat['impls'])


# ---- whole derive: counterpart / error type forms go through the crate's own TypePath::from and the quote_*_trait skeletons
W_TYS = ['X', 'm::X', 'X<T>', 'm::X<T>', "m::X<'a, T>", '::m::X<T>', 'X<Y<Z>>', 'm::n::X<(i32, T)>', 'X<[u8; 4]>', '(i32, i64)', 'X::<T>']
W_ERRS = ['Er', 'm::Er', 'Er<T>', 'm::Er<T, U>']
W_ITEMS = ['struct S<T> { a: T }', 'struct S<T>(T);', 'enum E<T> { A(T), B }', 'struct S { a: i32 }']


def type_forms_shard(ctx, sh):
    import z3, synmodel, c13
    from engine import SymStr
    from build import TRAIT_NAMES
    e = ctx.engine()
    synmodel.install(e)
    item = W_ITEMS[sh['item']]
    combos = [(t, er) for t in range(len(W_TYS)) for er in range(len(W_ERRS))]

    def run(eng):
        fv = z3.Int('fall')
        eng.assume(z3.And(fv >= 0, fv <= 1))
        f = eng.decide([(0, fv == 0), (1, fv == 1)])
        uni = [n for n in TRAIT_NAMES if n.startswith('try') == bool(f)]
        atom = z3.Int('nm')
        eng.assume(z3.And(atom >= 0, atom < len(uni)))
        cv = z3.Int('combo')
        eng.assume(z3.And(cv >= 0, cv < len(combos)))
        k = eng.decide([(i, cv == i) for i in range(len(combos)) if f or combos[i][1] == 0])
        t, er = combos[k]
        text = '#[SYM(%s%s)] %s' % (W_TYS[t], (', ' + W_ERRS[er]) if f else '', item)
        eng.aux['w'] = (text, uni)
        return c13.outcome(eng, text, {'SYM': SymStr(atom, uni)})
    res = e.explore(run)
    ctx.absorb(e, res)
    wit = []
    for r in res:
        if r.kind != 'ok':
            ctx.inconclusive.append('engine panic in C17 (type forms): %s' % r.value); continue
        text, uni = r.aux['w']
        mdl = ctx.model_of(r.pc)
        wit.append((r, text.replace('SYM', uni[mdl.eval(z3.Int('nm'), model_completion=True).as_long()])))
    nat = ctx.replay.run_many([w[1] for w in wit])
    for (r, src), n in zip(wit, nat):
        out = r.value
        if (out[0] == 'ok' and n['status'] == 'ok' and out[1] == expander.flat_text(n['out'])) or (out[0] != 'ok' and n['status'] == out[0]):
            ctx.cov['traces_validated_against_impl'] += 1
        else:
            ctx.inconclusive.append('ENCODING-MISMATCH (C17 type forms): %s :: engine %s native %s' % (src, out[0], n['status']))
            continue
        if n['status'] != 'ok':
            continue
        ctx.cov['queries']['unsat'] += 1
        if not n['parse'] or not n['parse'].startswith('ok'):
            if item.startswith('enum') and 'into_existing' in src.split('(')[0]:
                # same role as the sweep's class: an enum under an into_existing instruction (open finding)
                ctx.violation('output-does-not-parse', 'enum+into_existing', 'accepted input expands to tokens that are not a sequence of items: %s' % (n['parse'],), {'input': src, 'output': n['out'][:1500], 'parse': n['parse']})
                continue
            if item.startswith('enum') and '((' in src.split(' enum')[0]:
                ctx.violation('type-forms', 'enum+tuple-counterpart', 'accepted input expands to tokens that are not a sequence of items: %s' % (n['parse'],), {'input': src, 'output': n['out'][:1500], 'parse': n['parse']})
                continue
            ctx.violation('type-forms', 'output-does-not-parse', 'accepted input expands to tokens that are not a sequence of items: %s' % (n['parse'],), {'input': src, 'output': n['out'][:1500], 'parse': n['parse']})
            continue
        for im in n['impls']:
            errs = shape_errors(im)
            if errs:
                ctx.violation('type-forms', 'impl-shape/' + errs[0].split(' ')[0], '; '.join(errs), {'input': src, 'impl': im['text'][:1200]})
        ctx.cov['sub_checks']['impls_shape_checked'] = ctx.cov['sub_checks'].get('impls_shape_checked', 0) + len(n['impls'])
    if wit:
        ctx.sample({'part': 'type forms (whole derive)', 'input': wit[len(wit) // 2][1]})
    ctx.cov['sub_checks']['type_form_paths'] = ctx.cov['sub_checks'].get('type_form_paths', 0) + len(wit)


def body(ctx):
    ctx.cov['outside_claim'] = ['form-inconsistent configurations: index rename / indexed ghosts against a struct-form counterpart, named ghosts or ..update against a tuple-form counterpart, payload fields against a unit-form variant (Rust syntax cannot express what the user asked for)',
                                'well-formedness of user-supplied expressions/types/patterns (placeholders are well-formed by construction)',
                                'generic parameter lists (C11)', 'shapes beyond the sweep families', 'counterpart paths with generic arguments on a non-final segment (`m::X<T>::Y`)']
    ctx.assumptions = ['syn 1.x `parse2::<syn::File>` is the judge of syntactic validity', 'library models; per-path native equality of predicted and real output']
    expander.sweep(ctx, ['flat', 'params', 'ghosts', 'child', 'parent', 'enum'], per_path)
    ctx.cov['bounds']['type_forms'] = {'counterpart_types': W_TYS, 'error_types': W_ERRS, 'items': W_ITEMS, 'instruction_name': 'symbolic over the 12 infallible / 12 fallible names'}
    ctx.run_shards(type_forms_shard, [{'item': i} for i in range(len(W_ITEMS))])


if __name__ == '__main__':
    main('C17', body)
