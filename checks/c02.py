#!/usr/bin/env python3-vt
"""C02 — enum conversions map each variant and payload field to its designated target.

validate + data_type_impl from MIR over the `enum` sweep families (variant-level rename / expression / ghost / ghosts /
type_hint, payload-field rename / expression / ghost, enum-level ghosts, literal / pattern variants, default case; symbolic
instruction names, dedication and presence).  For every accepted path and every model of its path condition the generated `match`
is decoded into arms (pattern, bindings) => (constructor, payload slots) and compared with the property statement:
 (i)  one arm per variant that exists on the source side, in declaration order, from `Src::V'` to `Dst::V''` (rename / expression);
      ghost variants skipped in one direction and defaulted in the other; enum-level ghosts arms; `_ =>` exactly when designated;
 (ii) tuple payloads bound as f0, f1, ..., named payloads by field name; every identifier the right-hand side uses is bound on the left;
 (iii) each payload field reaches its designated slot (own position / name, rename, expression with `~` := its binding).
Predicted tokens == real tokens on every path."""
import sys, os, re
sys.path.insert(0, os.path.dirname(os.path.abspath(__file__)))
from common import *   # noqa
import z3
import expander, decode, slots, c01, c17
from decode import is_p, is_i, norm
from spec import Ev, MapInstr, GhostInstr, GhostsInstr, SimpleInstr
from tokens import TGroup, TIdent, tokenize
sys.path.insert(0, os.path.join(VERIF, 'oracle'))
import docs


def split_arms(group):
    """match body -> [(pattern items, rhs items)]"""
    arms, cur = [], []
    items = group.ts.items
    i = 0
    # arms are `pat => rhs ,` ; the default case arm is emitted without a trailing comma
    parts = slots.split_at(items, ',')
    out = []
    for p in parts:
        if not p:
            continue
        k = None
        for j in range(len(p) - 1):
            if is_p(p[j], '=') and is_p(p[j + 1], '>'):
                k = j; break
        if k is None:
            # continuation of a previous arm's rhs containing a top-level comma (should not happen with the placeholder expressions)
            if out:
                out[-1] = (out[-1][0], out[-1][1] + [None] + p)
            continue
        out.append((p[:k], p[k + 2:]))
    return out


def pat_parts(items):
    """`Src :: V (f0, f1,)` | `Src :: V { x, y, }` | `Src :: V` | other -> (text of head, form, bindings)"""
    if items and isinstance(items[-1], TGroup) and items[-1].delim in ('Parenthesis', 'Brace'):
        g = items[-1]
        binds = [norm(e) for e in slots.split_at(g.ts.items, ',') if e]
        return norm(items[:-1]), 'tuple' if g.delim == 'Parenthesis' else 'struct', binds
    return norm(items), 'unit', []


def used_idents(items, out):
    for t in items:
        if t is None:
            continue
        if isinstance(t, TGroup):
            used_idents(t.ts.items, out)
        elif isinstance(t, TIdent):
            out.add(t.name)
    return out


class EnumOracle(slots.Oracle):
    def variant_arm(self, v, vi, kind, fallible, ty, src, dst):
        """expected (pattern head, pattern form, bindings, rhs description) or None when the variant has no arm"""
        ev = self.ev
        ins = self.instrs(v)
        w = self.winner(v, kind, fallible, ty)
        lits = [i for i in ins if isinstance(i, SimpleInstr) and i.kind == 'literal']
        pats = [i for i in ins if isinstance(i, SimpleInstr) and i.kind == 'pattern']
        hints = [i for i in ins if isinstance(i, SimpleInstr) and i.kind == 'type_hint']

        def pick(xs):
            for x in xs:
                if ev(x.ded) == ty:
                    return x
            for x in xs:
                if ev(x.ded) is None:
                    return x
            return None
        lit, pat, hint = pick(lits), pick(pats), pick(hints)
        hintv = ev(hint.arg) if hint is not None else 'Unspecified'
        is_from = kind in slots.FROM
        if w and w[0] == 'ghost':
            if is_from:
                return None
            a = ev(w[1].action)
            if a is None:
                return None
            return {'head': '%s::%s' % (src, v.name), 'rhs_expr': slots.subst(a, 'self', None), 'own_form': v.shape}
        if lit is not None or pat is not None:
            return {'litpat': True, 'lit': lit.arg if lit else None, 'pat': pat.arg if pat else None, 'w': w}
        own_form = {'named': 'struct', 'tuple': 'tuple', 'unit': 'unit'}[v.shape]
        cp_form = {'Struct': 'struct', 'Tuple': 'tuple', 'Unit': 'unit'}.get(hintv, own_form)
        ren = ev(w[1].member) if w else None
        act = ev(w[1].action) if w else None
        other = str(ren[1]) if ren is not None else v.name
        exp = {'own_form': own_form, 'cp_form': cp_form}
        if is_from:
            exp['head'] = '%s::%s' % (src, other)
            exp['pat_form'] = cp_form
            if act is not None:
                exp['rhs_expr'] = slots.subst(act, 'value', v.name)
            else:
                exp['rhs_head'] = '%s::%s' % (dst, v.name)
                exp['rhs_form'] = own_form
        else:
            exp['head'] = '%s::%s' % (src, v.name)
            exp['pat_form'] = own_form
            if act is not None:
                exp['rhs_expr'] = slots.subst(act, 'self', '%s::%s' % (dst, other))
            else:
                exp['rhs_head'] = '%s::%s' % (dst, other)
                exp['rhs_form'] = cp_form
        # payload designation
        fields = v.fields or []
        binds, slots_ = [], []
        pos = 0
        for k, f in enumerate(fields):
            fw = self.winner(f, kind, fallible, ty)
            fname = f.name if f.name is not None else str(k)
            own_bind = f.name if v.shape == 'named' else 'f%d' % k
            if fw and fw[0] == 'ghost':
                if is_from:
                    a = ev(fw[1].action)
                    if a is not None:
                        slots_.append((fname, slots.subst(a, 'value', None)))
                else:
                    binds.append(own_bind)
                continue
            fren = ev(fw[1].member) if fw else None
            fact = ev(fw[1].action) if fw else None
            if is_from:
                # the source side is the counterpart variant: named form binds by the source-side (renamed) field name, tuple form as f<k>
                if exp['pat_form'] == 'struct':
                    b = str(fren[1]) if (fren is not None and fren[0] == 'n') else fname
                    binds.append(b)
                else:
                    # tuple-form source: every position is bound as f<position>; an index rename selects which binding is read
                    binds.append('f%d' % k)
                    b = 'f%d' % (fren[1] if (fren is not None and fren[0] == 'i') else k)
                    if fren is not None and fren[0] == 'n':
                        exp['name_rename_vs_tuple'] = True
                rhs = slots.subst(fact, 'value', b) if fact is not None else b
                slots_.append((fname, rhs))
            else:
                binds.append(own_bind)
                rhs = slots.subst(fact, 'self', own_bind) if fact is not None else own_bind
                if exp.get('rhs_form') == 'struct':
                    slot = str(fren[1]) if fren is not None else fname
                else:
                    slot = str(pos)
                slots_.append((slot, rhs))
                pos += 1
        # variant-level #[ghosts(..)]: extra fields of the counterpart variant (bound and ignored when converting from it, defaulted when converting into it)
        vg = [g for g in ins if isinstance(g, GhostsInstr) and docs.ghost_kinds(ev(g.name))[docs.KINDS.index(kind)]]
        vgs = [g for g in vg if ev(g.ded) == ty] or [g for g in vg if ev(g.ded) is None]
        if vgs:
            for gd in vgs[0].data:
                gname = str(gd.ident[1]) if gd.ident[0] == 'n' else 'f%d' % gd.ident[1]
                if is_from:
                    binds.append(gname)
                else:
                    slots_.append((str(gd.ident[1]), slots.subst(gd.action, 'self', None)))
        if not is_from and exp.get('rhs_form') == 'tuple':
            for f in fields:
                fw = self.winner(f, kind, fallible, ty)
                if fw and fw[0] == 'map' and ev(fw[1].member) is not None and ev(fw[1].member)[0] == 'n':
                    exp['name_rename_vs_tuple'] = True
        exp['binds'], exp['slots'] = binds, slots_
        exp['index_rename_vs_struct'] = any((ev(self.winner(f, kind, fallible, ty)[1].member) or ('n',))[0] == 'i' for f in fields if self.winner(f, kind, fallible, ty) and self.winner(f, kind, fallible, ty)[0] == 'map') and 'struct' in (exp.get('pat_form'), exp.get('rhs_form'))
        return exp


def check_arm(exp, pat_items, rhs_items, is_from):
    head, form, binds = pat_parts(pat_items)
    if head != exp['head']:
        return 'arm pattern %s, expected %s' % (head, exp['head'])
    if 'rhs_expr' in exp:
        got = norm([t for t in rhs_items if t is not None])
        return None if got == exp['rhs_expr'] else 'arm %s yields %s, expected the expression %s' % (head, got, exp['rhs_expr'])
    if form != exp['pat_form'] and not (form == 'unit' and not exp['binds']) and not (exp['pat_form'] == 'unit' and not binds):
        return 'arm %s destructures as %s, expected %s' % (head, form, exp['pat_form'])
    lit = slots.parse_literal([t for t in rhs_items if t is not None])
    if lit['ctor'] != exp['rhs_head']:
        return 'arm %s constructs %s, expected %s' % (head, lit['ctor'], exp['rhs_head'])
    used = used_idents([t for t in rhs_items if t is not None and isinstance(t, TGroup)], set())
    bound = set(binds)
    payload_ids = {b for b in exp['binds']}
    for u in sorted(used):
        if (re.fullmatch(r'f\d+', u) or u in payload_ids) and u not in bound and u not in ('value', 'self'):
            return 'arm %s uses `%s` on the right but binds only %s on the left' % (head, u, sorted(bound))
    if exp.get('rhs_form') == 'unit' or (lit['form'] == 'unit' and not exp['slots']):
        return None
    if sorted(binds) != sorted(exp['binds']):
        return 'arm %s binds %s, expected %s' % (head, binds, exp['binds'])
    if lit['form'] == 'struct':
        if lit['slots'] != exp['slots']:
            return 'arm %s payload %r, expected %r' % (head, lit['slots'], exp['slots'])
    elif lit['form'] == 'tuple':
        if [r for _, r in lit['slots']] != [r for _, r in exp['slots']]:
            return 'arm %s payload %r, expected %r' % (head, [r for _, r in lit['slots']], [r for _, r in exp['slots']])
    return None


def per_path(ctx, po, sh):
    if po.kind != 'ok' or po.spec.kind != 'enum':
        return
    try:
        decs = {}
        for im in decode.split_impls(po.tokens):
            d = slots.decode_fn(im)
            decs[(d['kind'], d['fallible'], d['cp'])] = d
    except (ValueError, IndexError, KeyError):
        ctx.cov['sub_checks']['undecodable (C17 matter)'] = ctx.cov['sub_checks'].get('undecodable (C17 matter)', 0) + 1
        return
    dk = docs.doc_kinds()
    vars_ = [v for v, _ in po.env.vars.values()]
    models, _ = c01.all_models(ctx, po.res.pc, vars_, cap=12)
    for mdl in models:
        ev = Ev(po.env, mdl)
        inc, _ = c17.config_features_ev(po, ev)
        if inc:
            ctx.cov['sub_checks']['skipped_form_inconsistent'] = ctx.cov['sub_checks'].get('skipped_form_inconsistent', 0) + 1
            continue
        orc = EnumOracle(po.spec, ev)
        why = None
        for t in po.spec.traits:
            name = ev(t.name)
            ty = t.ty
            cp = norm(tokenize(ty).items)
            for kind, fallible in sorted(dk[name]):
                d = decs.get((kind, fallible, cp))
                if d is None:
                    why = ('impl-missing', '%s for %s' % (kind, cp)); break
                if ev(t.quick_return) is not None:
                    continue
                ti = d['tail_items']
                if not (len(ti) >= 3 and is_i(ti[0], 'match') and isinstance(ti[-1], TGroup)):
                    why = ('not-a-match', d['tail'][:120]); break
                scrut = norm(ti[1:-1])
                is_from = kind in slots.FROM
                if scrut != ('value' if is_from else 'self'):
                    why = ('scrutinee', scrut); break
                arms = split_arms(ti[-1])
                src, dst = (cp, po.spec.name) if is_from else (po.spec.name, cp)
                exp_arms = []
                for vi, v in enumerate(po.spec.members):
                    e = orc.variant_arm(v, vi, kind, fallible, ty, src, dst)
                    if e is not None:
                        exp_arms.append((v, e))
                k = 0
                for v, e in exp_arms:
                    if k >= len(arms):
                        why = ('arm-missing', 'no arm for variant %s' % v.name); break
                    if e.get('litpat'):
                        # literal / pattern arms: which values they match is C09's (Kani); here: the arm uses the literal designated for
                        # this counterpart (dedicated before default) and sits at the variant's position
                        pat_s, rhs_s = norm(arms[k][0]), norm([t for t in arms[k][1] if t is not None])
                        lit = norm(tokenize(e['lit']).items) if e['lit'] is not None else None
                        if is_from:
                            want = lit if lit is not None else norm(tokenize(e['pat']).items)
                            if pat_s != want:
                                why = ('arm', 'literal/pattern arm of variant %s matches `%s`, designated `%s`' % (v.name, pat_s, want)); break
                        elif lit is not None and e['w'] is None:
                            if pat_s != '%s::%s' % (src, v.name) or rhs_s != lit:
                                why = ('arm', 'variant %s converts to `%s`, designated literal `%s`' % (v.name, rhs_s, lit)); break
                        k += 1
                        continue
                    if e.get('index_rename_vs_struct') or e.get('name_rename_vs_tuple'):
                        k += 1          # rename form does not fit the counterpart variant's form: no designation (user inconsistency)
                        continue
                    r = check_arm(e, arms[k][0], arms[k][1], is_from)
                    if r:
                        why = ('arm', r); break
                    k += 1
                if why:
                    break
                rest = arms[k:]
                # the remaining arms may only be enum-level ghosts (From) and the default case
                g = orc.ghosts_for(ty, kind) if is_from else None
                want_rest = []
                if g is not None:
                    for gd in g.data:
                        want_rest.append('%s::%s' % (src, gd.ident[1]) if gd.ident[0] == 'n' else '%s::%s' % (src, norm(tokenize(gd.ident[1]).items)))
                dcase = ev(t.default_case)
                any_lp = any(e.get('litpat') for _, e in exp_arms)
                ghost_variant = any((orc.winner(v, kind, fallible, ty) or (None,))[0] == 'ghost' for v in po.spec.members)
                # the statement: source values covered by no variant evaluate the `_ =>` case.  Converting FROM the counterpart such values may
                # always exist (its variants are not known to the derive); converting INTO it they exist exactly when a variant is skipped
                default_designated = dcase is not None and (is_from or ghost_variant)
                got_heads = [norm(p) for p, _ in rest]
                want_heads = want_rest + (['_'] if default_designated else [])
                if got_heads != want_heads:
                    if got_heads + ['_'] == want_heads and is_from and not (any_lp or g is not None):
                        why = ('default-case-dropped', 'the instruction declares `_ => ..` but the %s match has no default arm (no literal / pattern / enum-level ghosts present)' % kind); break
                    why = ('extra-arms', 'after the variant arms: %r, expected %r' % (got_heads, want_heads)); break
            if why:
                break
        ctx.cov['queries']['unsat' if why is None else 'sat'] += 1
        if why:
            text = po.spec.text(ev)
            nat = ctx.replay.run(text)
            if nat['status'] == 'ok' and expander.flat_text(nat['out']) == expander.flat(po.tokens):
                cat = ('unbound-binding' if re.search(r'uses `f\d+` on the right', why[1]) else 'unbound-named-binding') if 'on the right but binds only' in why[1] else ('payload' if ' payload ' in why[1] else ('bindings' if ' binds ' in why[1] else ('pattern' if 'arm pattern' in why[1] else ('constructor' if 'constructs' in why[1] else 'other'))))
                cls = '%s/%s' % (why[0], cat) if why[0] != 'default-case-dropped' else 'default-case-dropped/from-without-literal-pattern-ghosts'
                ctx.violation('enum-arms', cls, why[1], {'input': text, 'output': nat['out'][:2000]})
            else:
                ctx.inconclusive.append('C02 counterexample does not reproduce natively: %s' % text)
            return


def body(ctx):
    ctx.cov['outside_claim'] = ['values matched by literal / pattern arms (C09, Kani over all primitive values); only presence and order of those arms here', 'form-inconsistent configurations (index rename against a struct-form variant, payload against a unit-form variant)',
                                'into_existing on enums (C17 finding)', 'runtime values of payloads (the arm structure is what rustc executes)']
    ctx.assumptions = ['oracle = property statement (EnumOracle.variant_arm), written from the README rules; decoder is structural', 'predicted == real tokens per path']
    expander.sweep(ctx, ['enum'], per_path, judge_native=True)


if __name__ == '__main__':
    main('C02', body)
