"""Summaries of the two instruction parsers, obtained by executing the real
`parse_member_instruction` / `parse_data_type_instruction` MIR on a symbolic instruction name
(syn::parse2 stubbed: the argument parser is the stubbed layer, see DESIGN.md §1)."""
import z3
from engine import Ref, Cell, SymStr, Opq, EnumV, Agg, Unsupported
from models import ok, IdentV
from tokens import TS
from build import B, MEMBER_MAP_NAMES, TRAIT_NAMES

MEMBER_UNI = MEMBER_MAP_NAMES + ['owned_try_into_existing', 'ref_try_into_existing', 'try_into_existing',
                                 'ghost', 'ghost_owned', 'ghost_ref', 'ghosts', 'ghosts_owned', 'ghosts_ref',
                                 'child', 'parent', 'as_type', 'literal', 'pattern', 'repeat', 'skip_repeat', 'stop_repeat', 'type_hint',
                                 'children', 'child_parents', 'where_clause', 'allow_unknown', 'o2o', 'doc', 'zz_other']
TYPE_UNI = MEMBER_UNI


def stub_parse2(e):
    """syn::parse2::<T>(tokens) -> Ok(opaque T): the argument parser is not executed in the name->summary explorations"""
    import synmodel  # noqa: registers the real model of syn::parse2; the per-engine flag below selects the stub
    e.stub_parse2 = True


def _explore_instr(ctx, e, fn_name, uni):
    b = B(e)
    stub_parse2(e)

    def run(eng):
        atom = b.fresh_int('name', 0, len(uni) - 1)
        own = eng.fresh('own', 'bool')
        bark = eng.fresh('bark', 'bool')
        idn = IdentV(SymStr(atom, uni), Opq('Span', 'instr'))
        r = eng.call_fn(fn_name, [Ref(Cell(idn)), TS(), own, bark])
        eng.aux['vars'] = (atom, own, bark)
        return r
    res = e.explore(run)
    e.stub_parse2 = False
    ctx.absorb(e, res)
    return res


def summarize(ctx, e, which):
    """-> list of dict(name, own, bark, variant, payload) for every (name, own, bark) class.
    which: 'member' | 'type'"""
    uni = MEMBER_UNI
    fn = 'attr::parse_member_instruction' if which == 'member' else 'attr::parse_data_type_instruction'
    ety = 'attr::MemberInstruction' if which == 'member' else 'attr::DataTypeInstruction'
    res = _explore_instr(ctx, e, fn, uni)
    rows = []
    atom = z3.Int('name!1'); own = z3.Bool('own!2'); bark = z3.Bool('bark!3')
    for r in res:
        if r.kind != 'ok':
            raise Unsupported('%s panicked on a symbolic name: %s' % (fn, r.value))
        v = r.value
        if v.d != 0:
            raise Unsupported('%s returned Err without running the argument parser' % fn)
        instr = v.p[0][0]
        variant = e.enums[ety][instr.d]
        payload = instr.p.get(instr.d, [])
        # which (name, own, bark) combinations lie on this path?
        s = z3.Solver()
        for c in r.pc:
            s.add(c)
        for ni, nm in enumerate(uni):
            for o in (False, True):
                for bk in (False, True):
                    s.push()
                    s.add(atom == ni, own == o, bark == bk)
                    if s.check() == z3.sat:
                        rows.append({'name': nm, 'own': o, 'bark': bk, 'variant': variant, 'payload': payload})
                    s.pop()
    return rows, uni


def map_table(rows):
    """name -> (fallible, [6 bits]) for Map instructions (must not depend on own/bark)"""
    t = {}
    for r in rows:
        if r['variant'] == 'Map':
            a = r['payload'][0]
            names = None
            fall = a.f[_field(a, 'fallible')]
            bits = tuple(a.f[_field(a, 'applicable_to')].f)
            prev = t.get(r['name'])
            if prev is not None and prev != (fall, bits):
                raise Unsupported('Map summary of %s depends on own/bark' % r['name'])
            t[r['name']] = (fall, bits)
    return t


def bits_table(rows, variant):
    t = {}
    for r in rows:
        if r['variant'] == variant:
            a = r['payload'][0]
            t[r['name']] = tuple(a.f[_field(a, 'applicable_to')].f)
    return t


_FIELDS = {}


def set_structs(structs):
    _FIELDS.clear()
    _FIELDS.update(structs)


def _field(agg, name):
    return _FIELDS[agg.ty].index(name)
