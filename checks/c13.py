#!/usr/bin/env python3-vt
"""C13 — `#[instr(args)]`, `#[o2o(instr(args))]` and grouped `#[o2o(a(..), b(..))]` generate the same code.

The whole `expand::derive` — including the crate's own `Parse` impls and the two attribute-collection loops
(get_data_type_attrs / get_member_attrs) — is executed from MIR over a token-level model of syn's primitives
(symx/synmodel.py).  The instruction under test has a *symbolic name* (every name of its argument-syntax group that has a bare
form per o2o-macros' `attributes(...)` list); the all-bare spelling and every regrouping of the attribute list into
bare / `#[o2o(..)]` attributes are expanded under ONE path condition and must agree (tokens; or reject decision and diagnostics).
Also: (a) the instruction parsers' result for a recognised name does not depend on the (own_instr, bark) flags (kernel summary);
(b) translator validation: every derive input of the repository's own test-suite expands identically in the engine and natively."""
import sys, os, re, itertools
sys.path.insert(0, os.path.dirname(os.path.abspath(__file__)))
from common import *   # noqa
import z3
import expander, kernels, synmodel
from engine import Ref, Cell, SymStr, Panic, Unsupported
from build import TRAIT_NAMES, MEMBER_MAP_NAMES
from tokens import render

POSTFIX = ' To turn this message off, use #[o2o(allow_unknown)]'


def bare_names():
    src = open(os.path.join(REPO, 'o2o-macros', 'src', 'lib.rs')).read()
    m = re.search(r'attributes\(([^)]*)\)', src, re.S)
    if not m:
        raise Inconclusive('attributes(...) list not found in o2o-macros')
    return [x.strip() for x in m.group(1).split(',') if x.strip() and x.strip() != 'o2o']


def spellings(k):
    """all ways to write k adjacent instructions: each bare or inside an o2o(..) list; adjacent o2o ones optionally merged.
    -> list of lists of groups; a group is ('bare', i) or ('o2o', [i, j, ..])"""
    out = []
    for mask in itertools.product((0, 1), repeat=k):
        # runs of consecutive 1s can be split into lists in every composition
        def rec(i, acc):
            if i == k:
                out.append(list(acc)); return
            if mask[i] == 0:
                rec(i + 1, acc + [('bare', i)])
            else:
                j = i
                while j < k and mask[j] == 1:
                    j += 1
                    rec(j, acc + [('o2o', list(range(i, j)))])
        rec(0, [])
    uniq = []
    for s in out:
        if s not in uniq:
            uniq.append(s)
    return uniq


def write_attrs(instrs, spelling):
    parts = []
    for g in spelling:
        if g[0] == 'bare':
            parts.append('#[%s]' % instrs[g[1]])
        else:
            parts.append('#[o2o(%s)]' % ', '.join(instrs[i] for i in g[1]))
    return ' '.join(parts)


TEMPLATES = {
    # level/group: (list of instructions with SYM as the symbolic name, names universe key, item text with {ATTRS})
    'type/trait': (['from_owned(Y)', 'SYM(X, Er)', 'ghosts(gx: { 1 })'], 'trait', '{ATTRS} struct S { a: i32, #[map(zz)] b: i32 }'),
    'type/trait-enum': (['SYM(X)', 'into(Y)'], 'trait', '{ATTRS} enum E { A, #[map(Bz)] B(i32) }'),
    'type/ghosts': (['map(X)', 'SYM(gx: { 1 }, gy: { @.a })', 'into_existing(X)'], 'ghosts', '{ATTRS} struct S { a: i32 }'),
    'type/child_parents': (['map(X)', 'SYM(c: C, c.d: D)', 'where_clause(T: Clone)'], 'child_parents', '{ATTRS} struct S { #[child(c.d)] a: i32 }'),
    'type/where': (['map(X)', 'SYM(T: Clone)'], 'where_clause', '{ATTRS} struct S { a: i32 }'),
    'field/map': (['SYM(zz, ~.clone())', 'ghost({ 1 })'], 'map', '#[map(X)] #[try_map(Y, Er)] #[into_existing(X)] struct S { {ATTRS} a: i32, b: i32 }'),
    'field/map2': (['child(c)', 'SYM(~ + 1)', 'map(Y| yy)'], 'map', '#[map(X)] #[map(Y)] #[child_parents(c: C)] struct S { {ATTRS} a: i32 }'),
    'field/ghost': (['map(zz)', 'SYM({ 7 })'], 'ghost', '#[map(X)] #[into_existing(X)] struct S { {ATTRS} a: i32, b: i32 }'),
    'field/child': (['SYM(c.d)', 'map(zz)'], 'child', '#[map(X)] #[child_parents(c: C, c.d: D)] struct S { {ATTRS} a: i32, b: i32 }'),
    'field/parent': (['SYM([map(q)] p, r)'], 'parent', '#[map(X)] struct S { {ATTRS} a: P, b: i32 }'),
    'variant/map': (['SYM(Bz)', 'type_hint(as ())'], 'map', '#[map(X)] #[try_map(Y, Er)] enum E { A, {ATTRS} B { x: i32 } }'),
    'variant/lit': (['SYM(1)'], 'literal', '#[map(i32| _ => todo!())] enum E { {ATTRS} A, #[pattern(_)] B }'),
    'variant/pat': (['SYM(2..=5)'], 'pattern', '#[from(i32)] enum E { #[literal(1)] A, {ATTRS} B }'),
    'variant/type_hint': (['SYM(as {})', 'map(Bz)'], 'type_hint', '#[map(X)] enum E { {ATTRS} B(#[map(f)] i32) }'),
    'vfield/map': (['SYM(zz)'], 'map', '#[map(X)] #[try_map(Y, Er)] enum E { B { {ATTRS} x: i32 } }'),
}


def universes(bare):
    u = {'trait': [n for n in TRAIT_NAMES if n in bare], 'map': [n for n in MEMBER_MAP_NAMES if n in bare],
         'ghosts': [n for n in ('ghosts', 'ghosts_owned', 'ghosts_ref') if n in bare], 'ghost': [n for n in ('ghost', 'ghost_owned', 'ghost_ref') if n in bare]}
    for single in ('child_parents', 'where_clause', 'child', 'parent', 'literal', 'pattern', 'type_hint'):
        u[single] = [single] if single in bare else []
    return u


def expander_match_close(s, i):
    depth = 0
    for j in range(i, len(s)):
        if s[j] in '([{':
            depth += 1
        elif s[j] in ')]}':
            depth -= 1
            if depth == 0:
                return j
    raise ValueError('unbalanced')


def split_top_commas(s):
    out, cur, depth = [], '', 0
    for ch in s:
        if ch in '([{':
            depth += 1
        elif ch in ')]}':
            depth -= 1
        if ch == ',' and depth == 0:
            out.append(cur.strip()); cur = ''
        else:
            cur += ch
    if cur.strip():
        out.append(cur.strip())
    return out


def outcome(eng, text, sym, raw=False):
    try:
        di = synmodel.derive_input(eng, text, sym)
        r = eng.call_fn('expand::derive', [Ref(Cell(di))])
    except Panic as ex:
        return ('panic', ex.msg)
    if eng.concretize(r.d, [0, 1]) == 0:
        return ('ok', expander.flat(r.p[0][0]))
    ev = r.p[1][0]
    if raw:
        return ('err', [m for _, m in ev.msgs], ev.parse)
    return ('err', sorted(str(m).replace(POSTFIX, '') for _, m in ev.msgs), ev.parse)


def same(a, b):
    if a[0] != b[0]:
        return False
    if a[0] == 'err':
        return a[2] or b[2] or a[1] == b[1]      # diagnostics raised by the modelled syn primitives are compared by decision only
    return a[1] == b[1]


def native_outcome(r):
    if r['status'] == 'ok':
        return ('ok', expander.flat_text(r['out']))
    if r['status'] == 'err':
        return ('err', sorted(m.replace(POSTFIX, '') for m in r['errs']), False)
    return (r['status'], r.get('msg'))


def shard_body(ctx, sh):
    key = sh['key']
    instrs, ukey, item = TEMPLATES[key]
    uni = universes(bare_names())[ukey]
    if not uni:
        return
    e = ctx.engine()
    synmodel.install(e)
    sps = spellings(len(instrs))
    base = sps[0]
    assert all(g[0] == 'bare' for g in base)
    hold = {}

    def run(eng):
        atom = z3.Int('nm')
        eng.assume(z3.And(atom >= 0, atom < len(uni)))
        si = z3.Int('sp')
        eng.assume(z3.And(si >= 1, si < len(sps)))
        k = eng.decide([(i, si == i) for i in range(1, len(sps))])
        sym = {'SYM': SymStr(atom, uni)}
        ta = item.replace('{ATTRS}', write_attrs(instrs, base))
        tb = item.replace('{ATTRS}', write_attrs(instrs, sps[k]))
        # an `allow_unknown` marker on the type (which switches bare attributes to the non-barking parser mode) must not matter either
        au = z3.Int('au')
        hi = 5 if item.startswith('{ATTRS}') else 2
        eng.assume(z3.And(au >= 0, au <= hi))
        auk = eng.decide([(i, au == i) for i in range(hi + 1)])
        if auk in (1, 2):
            pre = '#[o2o(allow_unknown)] '
            ta, tb = (pre + ta, pre + tb) if auk == 1 else (ta, pre + tb)
        elif auk:
            # the marker written INSIDE the first #[o2o(..)] list of the re-spelled form (front / end / after its first element); type level only
            pre = '#[o2o(allow_unknown)] '
            m = re.search(r'#\[o2o\(', tb)
            if m and item.startswith('{ATTRS}'):
                close = expander_match_close(tb, m.end() - 1)
                inner = tb[m.end():close]
                parts = split_top_commas(inner)
                pos = {3: 0, 4: len(parts), 5: 1 if len(parts) > 1 else len(parts)}[auk]
                parts.insert(pos, 'allow_unknown')
                tb = tb[:m.end()] + ', '.join(parts) + tb[close:]
                ta = pre + ta
            else:
                ta, tb = pre + ta, pre + tb
        eng.aux['texts'] = (ta, tb, k)
        a = outcome(eng, ta, sym)
        b = outcome(eng, tb, sym)
        return (a, b)
    res = e.explore(run)
    ctx.absorb(e, res)
    wit = []
    for r in res:
        if r.kind != 'ok':
            ctx.inconclusive.append('engine-level panic in C13 %s: %s' % (key, r.value)); continue
        a, b = r.value
        ta, tb, k = r.aux['texts']
        mdl = ctx.model_of(r.pc)
        nm = uni[mdl.eval(z3.Int('nm'), model_completion=True).as_long()]
        wit.append((r, a, b, ta.replace('SYM', nm), tb.replace('SYM', nm)))
    rs = ctx.replay.run_many([w[3] for w in wit] + [w[4] for w in wit])
    n = len(wit)
    for i, (r, a, b, ta, tb) in enumerate(wit):
        na, nb = native_outcome(rs[i]), native_outcome(rs[n + i])
        for pred, nat, t in ((a, na, ta), (b, nb, tb)):
            agree = pred[0] == nat[0] and (pred[0] != 'ok' or pred[1] == nat[1]) and (pred[0] != 'err' or pred[2] or pred[1] == nat[1])
            if agree:
                ctx.cov['traces_validated_against_impl'] += 1
            else:
                ctx.inconclusive.append('ENCODING-MISMATCH (C13 %s): %s :: engine %s / native %s' % (key, t, str(pred)[:200], str(nat)[:200]))
        eq = same(a, b)
        ctx.cov['queries']['unsat' if eq else 'sat'] += 1
        if not eq:
            if not same(na, nb):
                ctx.violation('spelling:%s' % key, 'differs', 'bare and #[o2o(..)] spellings expand differently: %s vs %s' % (str(na)[:300], str(nb)[:300]), {'inputs': [ta, tb]})
            else:
                ctx.inconclusive.append('C13 difference not reproduced natively: %s | %s' % (ta, tb))
    if wit:
        w = wit[len(wit) // 2]
        ctx.sample({'template': key, 'bare': w[3], 'respelled': w[4], 'equal': same(w[1], w[2])})
    ctx.cov['sub_checks']['spellings:' + key] = len(sps) - 1


def kernel_flags(ctx):
    """(a) parse_*_instruction: the result for a recognised name is independent of (own_instr, bark)"""
    e = ctx.engine()
    kernels.set_structs(e.structs)
    n = 0
    for which in ('member', 'type'):
        rows, _ = kernels.summarize(ctx, e, which)
        by = {}
        for r in rows:
            by.setdefault(r['name'], {})[(r['own'], r['bark'])] = (r['variant'], repr(r['payload']) if r['variant'] in ('Map', 'Ghost', 'Ghosts') else '')
        for nm, d in by.items():
            vs = set(v[0] for v in d.values())
            recognised = not (vs & {'Unrecognized', 'UnrecognizedWithError', 'Misplaced', 'Misnamed', 'AllowUnknown'})
            n += 1
            if recognised and len(set(d.values())) != 1:
                ctx.violation('parse_%s_instruction' % which, 'flags:%s' % nm, 'result for recognised instruction `%s` depends on (own_instr, bark): %r' % (nm, d), {'input': None})
            ctx.cov['queries']['unsat'] += 1
    ctx.cov['sub_checks']['kernel_flag_independence_names'] = n


def suite_shard(ctx, sh):
    """(b) translator validation on the repository's own derive inputs"""
    import subprocess
    texts = sh['texts']
    e = ctx.engine()
    synmodel.install(e)
    nat = ctx.replay.run_many(texts)
    for t, n in zip(texts, nat):
        def run(eng):
            return outcome(eng, t, {})
        try:
            res = e.explore(run)
        except Unsupported as ex:
            ctx.inconclusive.append('suite input not executable in the engine: %s :: %s' % (ex, t[:200])); continue
        ctx.absorb(e, res)
        a = res[0].value if res[0].kind == 'ok' else ('panic', res[0].value)
        b = native_outcome(n)
        if a[0] == b[0] and (a[0] == 'panic' or a[1] == b[1]):
            ctx.cov['traces_validated_against_impl'] += 1
        else:
            ctx.inconclusive.append('ENCODING-MISMATCH (suite input): %s :: engine %s / native %s' % (t[:300], str(a)[:200], str(b)[:200]))
    ctx.cov['sub_checks']['suite_inputs'] = ctx.cov['sub_checks'].get('suite_inputs', 0) + len(texts)


def suite_texts():
    sys.path.insert(0, os.path.join(VERIF, 'tools'))
    import extract_inputs, glob
    seen, out = set(), []
    for f in sorted(glob.glob(os.path.join(REPO, 'o2o-tests/tests/*.rs'))):
        for it in extract_inputs.items_of(open(f).read()):
            if it not in seen:
                seen.add(it); out.append(it)
    return out


def body(ctx):
    ctx.cov['bounds'] = {'templates': sorted(TEMPLATES), 'instructions_per_list': '<=3, every regrouping into bare / o2o(..) / merged o2o(..) lists', 'symbolic': 'the name of the re-spelled instruction over its argument-syntax group'}
    ctx.cov['stubs'] = ['syn token primitives are a model (symx/synmodel.py); everything of the crate, including its Parse impls, runs from MIR']
    ctx.cov['outside_claim'] = ['instructions without a bare form (ghost_owned, ghosts_ref, as_type, repeat, ...): the property quantifies over those that have one',
                                'syn\'s own tokenisation / error wording', 'unknown or misplaced instruction names (designed to differ: allow_unknown)']
    ctx.assumptions = ['model of syn primitives validated by (b): all derive inputs of o2o-tests expand identically in the engine and natively']
    kernel_flags(ctx)
    shards = [{'key': k} for k in sorted(TEMPLATES)]
    ctx.run_shards(shard_body, shards)
    texts = suite_texts()
    if ctx.tier == 'quick':
        texts = [t for i, t in enumerate(texts) if (i + ctx.seed) % 4 == 0]
    chunks = [texts[i::8] for i in range(8)]
    ctx.run_shards(suite_shard, [{'texts': c} for c in chunks if c])


if __name__ == '__main__':
    main('C13', body)
