#!/usr/bin/env python3-vt
"""C01 — struct conversions deliver each value to the field the instructions designate.

validate + data_type_impl from MIR over the flat / ghosts / params(struct) sweep families (symbolic instruction names, dedication,
rename form, presence of expressions and defaults, ghost flavours, struct-level ghosts, hints).  For every accepted path and for
EVERY model of its path condition (all-SAT over the choice variables, capped) the generated fn of each impl is decoded into a slot
map (struct/tuple literal or assignment list, vars, ..update, quick return) and compared with the designation computed by the
documentation oracle (checks/slots.py: Oracle, from DESIGN.md Appendix B).  Predicted tokens == real tokens on every path."""
import sys, os
sys.path.insert(0, os.path.dirname(os.path.abspath(__file__)))
from common import *   # noqa
import z3
import expander, decode, slots, c17
from spec import Ev
from tokens import tokenize


def all_models(ctx, pc, vars_, cap=24):
    s = z3.Solver()
    for c in pc:
        s.add(c)
    out = []
    while len(out) < cap and s.check() == z3.sat:
        m = s.model()
        out.append(m)
        s.add(z3.Or([v != m.eval(v, model_completion=True) for v in vars_]))
    exhausted = s.check() != z3.sat if len(out) >= cap else True
    return out, exhausted


def compare(exp, dec, spec_name):
    """-> None when the decoded fn realises the expectation, else a short reason"""
    if dec['lets'] != exp['lets']:
        return 'vars: expected %r, generated %r' % (exp['lets'], dec['lets'])
    kind = dec['kind']
    if 'quick_return' in exp:
        if kind in slots.EXISTING:
            return None if dec['assigns'] == [('*other', exp['quick_return'])] else 'quick return (into_existing): %r' % (dec['assigns'],)
        return None if dec['tail'] == exp['quick_return'] else 'quick return: expected body %s, generated %s' % (exp['quick_return'], dec['tail'])
    if kind in slots.EXISTING:
        want = [('other.' + s, r) for s, r in exp['slots']]
        if exp['form'] == 'unit':
            want = []
        if dec['assigns'] != want:
            return 'assignments: expected %r, generated %r' % (want, dec['assigns'])
        return None
    lit = slots.parse_literal(dec['tail_items'])
    if kind in slots.FROM:
        form, ctor = exp['dform'], spec_name
    else:
        form, ctor = exp['form'], dec['cp']
        if dec['cp'].startswith('('):
            ctor = ''
    if lit['ctor'] != ctor:
        return 'constructor: expected %s, generated %s' % (ctor, lit['ctor'])
    if form == 'unit':
        return None if lit['form'] == 'unit' else 'unit form expected, generated %s' % lit['form']
    if lit['form'] != form:
        return 'literal form: expected %s, generated %s' % (form, lit['form'])
    if form == 'struct':
        want = [(s, r) for s, r in exp['slots']]
        if lit['slots'] != want:
            return 'fields: expected %r, generated %r' % (want, lit['slots'])
    else:
        want = [r for _, r in exp['slots']]
        got = [r for _, r in lit['slots']]
        if got != want:
            return 'tuple elements: expected %r, generated %r' % (want, got)
    if lit['update'] != exp['update']:
        return 'update: expected %r, generated %r' % (exp['update'], lit['update'])
    return None


def classify(reason, dec, exp):
    head = reason.split(':')[0]
    return '%s/%s/%s' % (head, 'from' if dec['kind'] in slots.FROM else ('existing' if dec['kind'] in slots.EXISTING else 'into'), exp.get('form'))


def per_path(ctx, po, sh):
    if po.kind != 'ok' or po.spec.kind != 'struct' or sh.get('parent'):
        return          # bare #[parent] members have no slot designation here (C03 / C08 / C17 look at them)
    try:
        impls = decode.split_impls(po.tokens)
        decs = {}
        for im in impls:
            d = slots.decode_fn(im)
            decs[(d['kind'], d['fallible'], d['cp'])] = d
    except (ValueError, IndexError, KeyError) as ex:
        ctx.cov['sub_checks']['undecodable (C17 matter)'] = ctx.cov['sub_checks'].get('undecodable (C17 matter)', 0) + 1
        return
    vars_ = [v for v, _ in po.env.vars.values()]
    models, exhausted = all_models(ctx, po.res.pc, vars_)
    if not exhausted:
        ctx.cov['sub_checks']['paths with more models than the cap (first 24 checked)'] = ctx.cov['sub_checks'].get('paths with more models than the cap (first 24 checked)', 0) + 1
    for mdl in models:
        ev = Ev(po.env, mdl)
        try:
            inc, feats = c17.config_features_ev(po, ev)
        except Exception:
            inc, feats = [], []
        if inc:
            ctx.cov['sub_checks']['skipped_form_inconsistent'] = ctx.cov['sub_checks'].get('skipped_form_inconsistent', 0) + 1
            continue
        try:
            exp = slots.Oracle(po.spec, ev).expected()
        except KeyError:
            continue            # `~` used where no member path exists: meaning undefined
        ctx.cov['queries']['unsat'] += 1
        if set(exp) != set(decs):
            ctx.cov['queries']['unsat'] -= 1; ctx.cov['queries']['sat'] += 1
            ctx.violation('impl-set', 'missing-or-extra', 'expected impls %r, generated %r' % (sorted(exp), sorted(decs)), {'input': po.spec.text(ev)})
            continue
        for key, e in exp.items():
            if e.get('ambiguous'):
                ctx.cov['sub_checks']['impls skipped: tuple positions with a skipped member in front (ambiguous)'] = ctx.cov['sub_checks'].get('impls skipped: tuple positions with a skipped member in front (ambiguous)', 0) + 1
                continue
            reason = compare(e, decs[key], po.spec.name)
            if reason:
                ctx.cov['queries']['unsat'] -= 1; ctx.cov['queries']['sat'] += 1
                text = po.spec.text(ev)
                nat = ctx.replay.run(text)
                if nat['status'] == 'ok' and expander.flat_text(nat['out']) == expander.flat(po.tokens):
                    ctx.violation('designation', classify(reason, decs[key], e), '%s %s for %s: %s' % (key[0], 'fallible' if key[1] else '', key[2], reason), {'input': text, 'output': nat['out'][:1500]})
                else:
                    ctx.inconclusive.append('C01 counterexample does not reproduce natively (same path, other model): %s' % text)
                break


def body(ctx):
    ctx.cov['outside_claim'] = ['flattened child / parent mappings (C03)', 'enums (C02)', 'form-inconsistent configurations (see C17)', 'runtime values: the slot map is read off the generated tokens, which rustc then executes']
    ctx.assumptions = ['designation oracle = DESIGN.md Appendix B (README rules); decoder is structural', 'predicted tokens == real tokens (validated natively per path)']
    expander.sweep(ctx, ['flat', 'ghosts', 'params'], per_path, judge_native=True)


if __name__ == '__main__':
    main('C01', body)
