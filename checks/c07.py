#!/usr/bin/env python3-vt
"""C07 — owned / by-reference / fallible / into-existing flavours of a mapping agree.

One input carries all twelve flavours (`map`, `try_map`, `into_existing`, `try_into_existing` for one counterpart); the member
instructions are symbolic.  validate + data_type_impl run from MIR; on every accepted path the twelve generated fns are decoded
(checks/slots.py) and compared pairwise whenever *the same instructions apply to both flavours* — a precondition evaluated with the
documentation's precedence chain (slots.Oracle.winner) under every model of the path condition:
  From<&T> vs From<T>, Into for &S vs Into for S : same literal, same vars;
  Try* vs plain                                 : body(Try) == Ok(body(plain)) (assignment lists equal for into_existing);
  into_existing vs into                         : the assignment list `other.<slot> = e;` is slot for slot the `into` literal, nothing else assigned.
Predicted tokens equal the real derive's output on every path (native validation)."""
import sys, os, re
sys.path.insert(0, os.path.dirname(os.path.abspath(__file__)))
from common import *   # noqa
import z3
import expander, decode, slots, c01, c17
from spec import Ev

PAIRS_REF = [('FromOwned', 'FromRef'), ('OwnedInto', 'RefInto'), ('OwnedIntoExisting', 'RefIntoExisting')]
PAIRS_EX = [('OwnedInto', 'OwnedIntoExisting'), ('RefInto', 'RefIntoExisting')]


def winners(orc, spec, kind, fallible, ty):
    out = []
    for m in spec.members:
        w = orc.winner(m, kind, fallible, ty)
        out.append(None if w is None else (w[0], id(w[1])))
    g = orc.ghosts_for(ty, kind)
    return out, (None if g is None else id(g))


def literal_of(dec):
    lit = slots.parse_literal(dec['tail_items'])
    return lit


def agree_same_shape(a, b):
    """two fns of the same direction: identical result expression, vars and statements"""
    if a['lets'] != b['lets']:
        return 'vars differ: %r vs %r' % (a['lets'], b['lets'])
    if a['tail'] != b['tail']:
        return 'result expressions differ: %s vs %s' % (a['tail'], b['tail'])
    if a['assigns'] != b['assigns']:
        return 'assignments differ: %r vs %r' % (a['assigns'], b['assigns'])
    return None


def norm_calls(d, by_ref, fallible, existing):
    """the statements of a body that are neither `let` bindings nor assignments (the pour of a bare #[parent]), brought to the
    owned / infallible / into form so that flavours can be compared; -> (list, problem | None)"""
    out = []
    for c in d['calls']:
        if c.startswith('letmutobj'):
            continue
        c0 = c
        if by_ref:
            c = re.sub(r'\(&\((self\.[\w.]+)\)\)', r'\1', c)
        if 'into_existing(' in c:
            if fallible:
                if '.try_into_existing(' not in c or not c.endswith('?'):
                    return out, 'the fallible flavour pours with `%s`: the error of the nested conversion is not propagated with `?`' % c0
                c = c.replace('.try_into_existing(', '.into_existing(')[:-1]
            elif '.try_into_existing(' in c or c.endswith('?'):
                return out, 'the infallible flavour pours with `%s`' % c0
            if existing:
                c = c.replace('into_existing(other)', 'into_existing(&mutobj)')
        out.append(c)
    return out, None


def calls_agree(ka, kb, da, db):
    ca, pa = norm_calls(da, ka[0].startswith('Ref') or ka[0] == 'FromRef', ka[1], ka[0] in slots.EXISTING)
    cb, pb = norm_calls(db, kb[0].startswith('Ref') or kb[0] == 'FromRef', kb[1], kb[0] in slots.EXISTING)
    if pa or pb:
        return pa or pb
    if ca != cb:
        return 'statements differ: %r vs %r' % (da['calls'], db['calls'])
    return None


def existing_vs_into(into, ex):
    lit = literal_of(into)
    if lit['form'] == 'struct':
        want = [('other.' + s, r) for s, r in lit['slots']]
    elif lit['form'] == 'tuple':
        want = [('other.%d' % i, r) for i, (_, r) in enumerate(lit['slots'])]
    else:
        want = []
    if ex['assigns'] != want:
        return 'into builds %r but into_existing assigns %r' % (lit['slots'], ex['assigns'])
    return None


def per_path(ctx, po, sh):
    if po.kind != 'ok':
        return
    try:
        decs = {}
        for im in decode.split_impls(po.tokens):
            d = slots.decode_fn(im)
            decs[(d['kind'], d['fallible'])] = d
    except (ValueError, IndexError, KeyError):
        ctx.cov['sub_checks']['undecodable (C17 matter)'] = ctx.cov['sub_checks'].get('undecodable (C17 matter)', 0) + 1
        return
    vars_ = [v for v, _ in po.env.vars.values()]
    models, _ = c01.all_models(ctx, po.res.pc, vars_, cap=12)
    reported = set()
    for mdl in models:
        ev = Ev(po.env, mdl)
        inc, _ = c17.config_features_ev(po, ev)
        if inc:
            continue
        orc = slots.Oracle(po.spec, ev)
        if po.spec.kind == 'enum':
            # enums: by-ref vs owned and Try vs plain on the generated `match` (the arm structure itself is C02's subject)
            for ka, kb, what in [(('FromOwned', f), ('FromRef', f), 'ref-vs-owned') for f in (False, True)] + [(('OwnedInto', f), ('RefInto', f), 'ref-vs-owned') for f in (False, True)] + \
                              [((k, False), (k, True), 'try-vs-plain') for k in ('FromOwned', 'FromRef', 'OwnedInto', 'RefInto')]:
                if ka not in decs or kb not in decs:
                    continue
                same_instrs = all(((orc.winner(m, ka[0], ka[1], 'X') or (None, None))[0], id((orc.winner(m, ka[0], ka[1], 'X') or (None, None))[1])) ==
                                  ((orc.winner(m, kb[0], kb[1], 'X') or (None, None))[0], id((orc.winner(m, kb[0], kb[1], 'X') or (None, None))[1]))
                                  for v in po.spec.members for m in [v] + list(getattr(v, 'fields', None) or []))
                if not same_instrs:
                    continue
                da, db = decs[ka], decs[kb]
                why = None
                if da['lets'] != db['lets'] or da['tail'] != db['tail']:
                    why = 'generated match differs: %s vs %s' % (da['tail'][:200], db['tail'][:200])
                elif what == 'try-vs-plain' and not db['ok_wrapped']:
                    why = 'fallible flavour does not wrap the result in Ok(..)'
                ctx.cov['queries']['unsat' if why is None else 'sat'] += 1
                if why and (what, ka, kb) not in reported:
                    reported.add((what, ka, kb))
                    text = po.spec.text(ev)
                    nat = ctx.replay.run(text)
                    if nat['status'] == 'ok' and expander.flat_text(nat['out']) == expander.flat(po.tokens):
                        ctx.violation('flavour-agreement', '%s/enum' % what, '%s %s vs %s: %s' % (what, ka, kb, why), {'input': text, 'output': nat['out'][:2500]})
                    else:
                        ctx.inconclusive.append('C07 counterexample does not reproduce natively: %s' % text)
            continue
        try:
            expd = orc.expected()
        except KeyError:
            continue
        amb = {(k, f) for (k, f, cp), e in expd.items() if e.get('ambiguous')}
        W = {}
        for k in docs_kinds():
            for f in (False, True):
                W[(k, f)] = winners(orc, po.spec, k, f, 'X')
        checks = []
        for a, b in PAIRS_REF:
            for f in (False, True):
                checks.append(((a, f), (b, f), 'ref-vs-owned', agree_same_shape))
        for k in docs_kinds():
            checks.append(((k, False), (k, True), 'try-vs-plain', None))
        for a, b in PAIRS_EX:
            for f in (False, True):
                checks.append(((a, f), (b, f), 'existing-vs-into', None))
        for ka, kb, what, fn in checks:
            if ka not in decs or kb not in decs or W[ka] != W[kb]:
                continue
            if sh.get('variant') == 'parent' and what == 'ref-vs-owned':
                continue          # the child fields carry separate owned / by-ref instructions on purpose: different instructions apply
            if sh.get('variant') == 'bareparent':
                # post-init bodies: `let mut obj = Default::default(); obj.f = ..; <pour>; obj` — compared through assignments and the pour
                why = calls_agree(ka, kb, decs[ka], decs[kb])
                if why is None and what != 'existing-vs-into' and ka[0] not in slots.FROM and [(l.replace('other.', 'obj.'), r) for l, r in decs[ka]['assigns']] != [(l.replace('other.', 'obj.'), r) for l, r in decs[kb]['assigns']]:
                    why = 'assignments differ: %r vs %r' % (decs[ka]['assigns'], decs[kb]['assigns'])
                if why is None and what == 'existing-vs-into' and [(l.replace('obj.', 'other.'), r) for l, r in decs[ka]['assigns']] != decs[kb]['assigns']:
                    why = 'into assigns %r but into_existing assigns %r' % (decs[ka]['assigns'], decs[kb]['assigns'])
                if why is None and ka[0] in slots.FROM and what != 'try-vs-plain' and decs[ka]['tail'].replace('(&value)', 'value') != decs[kb]['tail'].replace('(&value)', 'value'):
                    why = 'result expressions differ: %s vs %s' % (decs[ka]['tail'], decs[kb]['tail'])
                ctx.cov['queries']['unsat' if why is None else 'sat'] += 1
                if why and (what, ka, kb) not in reported:
                    reported.add((what, ka, kb))
                    text = po.spec.text(ev)
                    nat = ctx.replay.run(text)
                    if nat['status'] == 'ok' and expander.flat_text(nat['out']) == expander.flat(po.tokens):
                        ctx.violation('flavour-agreement', '%s/bare-parent' % what, '%s %s vs %s: %s' % (what, ka, kb, why), {'input': text, 'output': nat['out'][:2500]})
                    else:
                        ctx.inconclusive.append('C07 counterexample does not reproduce natively: %s' % text)
                continue
            tag = ''
            if what == 'existing-vs-into':
                # position bookkeeping differs between `into` and `into_existing` when a skipped (ghost / parent) member precedes a mapped
                # one in a tuple-form counterpart; the configuration is recorded in the class so the known defect does not hide others
                skipped, plain_after, instr_after = False, False, False
                for m in po.spec.members:
                    w = orc.winner(m, ka[0], ka[1], 'X')
                    if (w is not None and w[0] == 'ghost') or any(isinstance(x, __import__('spec').ParentInstr) for x in orc.instrs(m)):
                        skipped = True
                    elif skipped:
                        if w is None:
                            plain_after = True
                        else:
                            instr_after = True
                g = orc.ghosts_for('X', ka[0])
                idx_ghost = g is not None and any(gd.ident[0] == 'i' for gd in g.data)
                if (ka in amb or kb in amb) and po.spec.shape == 'tuple':
                    # tuple struct -> tuple counterpart with a skipped member in front: `into` (compacted positions) and `into_existing`
                    # (declared indices) cannot both compile against one counterpart definition, so they cannot disagree at run time
                    ctx.cov['sub_checks']['existing-vs-into pairs skipped: tuple struct with a skipped member in front'] = ctx.cov['sub_checks'].get('existing-vs-into pairs skipped: tuple struct with a skipped member in front', 0) + 1
                    continue
                if ka in amb or kb in amb:
                    # which entries sit at different positions: the members (with / without an instruction) or only the struct-level ghosts?
                    lit = literal_of(decs[ka])
                    n_members = sum(1 for m in po.spec.members if not ((orc.winner(m, ka[0], ka[1], 'X') or (None,))[0] == 'ghost'))
                    want = [('other.%d' % i, r) for i, (_, r) in enumerate(lit['slots'])] if lit['form'] == 'tuple' else []
                    got = decs[kb]['assigns']
                    member_diff = want[:n_members] != got[:n_members]
                    tag = ('/member-position-' + ('plain' if plain_after else 'instructed')) if member_diff else '/indexed-ghost-position'
            ctx.cov['queries']['unsat'] += 1
            da, db = decs[ka], decs[kb]
            if what == 'ref-vs-owned':
                why = agree_same_shape(da, db)
            elif what == 'try-vs-plain':
                why = agree_same_shape(da, db) if ka[0] not in slots.EXISTING else (None if (da['lets'], da['assigns']) == (db['lets'], db['assigns']) else 'assignments differ: %r vs %r' % (da['assigns'], db['assigns']))
                if why is None and ka[0] not in slots.EXISTING and not db['ok_wrapped'] and not (da['tail'] == db['tail'] and 'quick' in str(sh)):
                    why = 'fallible flavour does not wrap the result in Ok(..)'
            else:
                why = existing_vs_into(da, db)
            if why and (what, ka, kb) not in reported:
                reported.add((what, ka, kb))
                ctx.cov['queries']['unsat'] -= 1; ctx.cov['queries']['sat'] += 1
                text = po.spec.text(ev)
                nat = ctx.replay.run(text)
                if nat['status'] == 'ok' and expander.flat_text(nat['out']) == expander.flat(po.tokens):
                    form = literal_of(decs[('OwnedInto', False)])['form'] if ('OwnedInto', False) in decs else '?'
                    ctx.violation('flavour-agreement', '%s/%s%s' % (what, form, tag), '%s %s vs %s: %s' % (what, ka, kb, why), {'input': text, 'output': nat['out'][:2500]})
                else:
                    ctx.inconclusive.append('C07 counterexample does not reproduce natively: %s' % text)


def docs_kinds():
    import docs
    return docs.KINDS


def body(ctx):
    ctx.cov['outside_claim'] = ['runtime part: a few seeded programs only (enumeration over programs, Kani over all field values)', 'flattened child mappings (C03)', 'into_existing on enums (C17 finding)',
                                'a `?` inside a user expression (token-level: the expression is copied verbatim into every flavour, see C10)']
    ctx.assumptions = ['"the same instructions apply" is evaluated with the documented precedence chain (oracle), for every model of the path condition', 'decoder is structural; predicted == real tokens per path']
    expander.sweep(ctx, ['c07'], per_path)
    # runtime half: Kani over the generated code with symbolic field values (and an arbitrary pre-existing destination)
    sys.path.insert(0, os.path.join(VERIF, 'kgen'))
    import c07_runtime
    c07_runtime.run(ctx, VERIF, REPO, 3 if ctx.tier == 'quick' else 10, 1 if ctx.tier == 'quick' else 3)


if __name__ == '__main__':
    main('C07', body)
