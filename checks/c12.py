#!/usr/bin/env python3-vt
"""C12 — shortcut instructions equal the basic instructions they abbreviate.

(a) kernel: the real parse_member_instruction / parse_data_type_instruction (MIR, symbolic instruction name) classify every
    shortcut as the same instruction variant, fallibility and applicability as the union of the basics the documentation lists
    (README table, oracle/docs.py); same for ghost / ghosts vs their _owned + _ref pair.
(b) relational: input A with one shortcut occurrence (type level, field, variant, nested-parent level, ghost, ghosts) and input B
    with the documented basics written out with the same arguments are expanded under ONE path condition (all other instructions
    symbolic and shared); the two outputs must be token-identical.  Each joint path is confirmed on the real derive."""
import sys, os
sys.path.insert(0, os.path.dirname(os.path.abspath(__file__)))
from common import *   # noqa
sys.path.insert(0, os.path.join(VERIF, 'oracle'))
import z3
import expander, kernels, docs
from spec import *     # noqa
from build import KINDS, MEMBER_MAP_NAMES, TRAIT_NAMES

SHORTCUTS = ['map', 'from', 'into', 'map_owned', 'map_ref', 'into_existing']


def kernel_tables(ctx):
    e = ctx.engine()
    tabs = expander.tables(ctx, e)
    dk = docs.doc_kinds()
    n = 0
    for level, rows, names in (('member', tabs['member_rows'], MEMBER_MAP_NAMES), ('type', tabs['type_rows'], TRAIT_NAMES)):
        tab = kernels.map_table(rows)
        for nm in names:
            bits, fall = docs.doc_bits(nm, dk)
            got = tab.get(nm)
            n += 1
            if (got is None or (bool(got[0]), [bool(x) for x in got[1]]) != (fall, bits)) and not confirmed(ctx, level, nm, dk):
                ctx.inconclusive.append('kernel summary of `%s` (%s level) deviates from the documentation but the real derive does not: %r' % (nm, level, got))
                continue
            if got is None:
                variants = sorted({r['variant'] for r in rows if r['name'] == nm})
                ctx.violation('parse_%s_instruction' % level, 'name=%s' % nm, 'documented mapping instruction `%s` is classified as %s, not as a mapping instruction' % (nm, variants),
                              {'input': kernel_witness(level, nm)})
            elif (bool(got[0]), [bool(x) for x in got[1]]) != (fall, bits):
                ctx.violation('parse_%s_instruction' % level, 'name=%s' % nm, '`%s`: applicable_to/fallible %r differs from the documented %r' % (nm, got, (fall, bits)),
                              {'input': kernel_witness(level, nm)})
            ctx.cov['queries']['unsat'] += 1
        # shortcut == union of its basics, from the code's own table (relational form of the same fact)
        for sc in SHORTCUTS + [docs.try_name(s) for s in SHORTCUTS]:
            if sc not in names or sc not in tab:
                continue
            bs = docs.basics_of(sc, dk)
            if any(b not in tab for b in bs):
                continue
            union = [any(tab[b][1][j] for b in bs) for j in range(6)]
            if [bool(x) for x in tab[sc][1]] != union or any(bool(tab[b][0]) != bool(tab[sc][0]) for b in bs):
                ctx.violation('parse_%s_instruction' % level, 'shortcut=%s' % sc, '`%s` does not equal the union of %s' % (sc, bs), {'input': kernel_witness(level, sc)})
    for variant, gnames in (('Ghost', ['ghost', 'ghost_owned', 'ghost_ref']), ('Ghosts', ['ghosts', 'ghosts_owned', 'ghosts_ref'])):
        for level, rows in (('member', tabs['member_rows']), ('type', tabs['type_rows'])):
            t = kernels.bits_table(rows, variant)
            for g in gnames:
                if g in t and [bool(x) for x in t[g]] != docs.ghost_kinds(g):
                    ctx.violation('parse_%s_instruction' % level, 'name=%s' % g, '`%s` applies to %r, documented %r' % (g, t[g], docs.ghost_kinds(g)), {'input': None})
                n += 1
    ctx.cov['sub_checks']['kernel_names_checked'] = n
    ctx.sample({'kernel': 'name -> (fallible, applicable_to) summaries of both parsers compared with the README table', 'names': n})


IMPL_KIND = {('From', False): 'FromOwned', ('From', True): 'FromRef', ('Into', False): 'OwnedInto', ('Into', True): 'RefInto',
             ('IntoExisting', False): 'OwnedIntoExisting', ('IntoExisting', True): 'RefIntoExisting'}


def native_kinds(nat, marker=None):
    """(kind, fallible) of every impl in a native expansion (optionally only those whose text contains `marker`)"""
    out = set()
    for im in nat['impls']:
        tr = im['trait'].replace(' ', '')
        base = tr.split('<')[0].split('::')[-1]
        fallible = base.startswith('Try')
        base = base[3:] if fallible else base
        by_ref = tr.split('<', 1)[1].startswith('&') if base == 'From' else im['self_ty'].strip().startswith('&')
        if marker is None or marker in im['text']:
            out.add((IMPL_KIND[(base, by_ref)], fallible))
    return out


def confirmed(ctx, level, nm, dk):
    """does the real derive deviate from the documentation for this instruction name?"""
    nat = ctx.replay.run(kernel_witness(level, nm))
    if nat['status'] != 'ok':
        return True
    if level == 'type':
        return native_kinds(nat) != dk[nm]
    # member level: the instruction's expression must show up exactly in the impls of the documented kinds
    want = set()
    for k, f in dk[nm]:
        want.add((k, f))
        if not f:
            want.add((k, True))        # an infallible member instruction also serves the fallible conversion (C05 chain)
        if k.endswith('Into'):
            pass
    got = native_kinds(nat, '__e0')
    into_fallback = {('OwnedIntoExisting' if k == 'OwnedInto' else 'RefIntoExisting', f) for k, f in want if k in ('OwnedInto', 'RefInto')}
    return not (want <= got <= (want | into_fallback))


def kernel_witness(level, nm):
    if level == 'type':
        return '#[%s(X%s)] struct S { a: i32 }' % (nm, ', Er' if 'try' in nm else '')
    return '#[map(X)] #[try_map(X, Er)] #[into_existing(X)] #[try_into_existing(X, Er)] struct S { #[%s(__e0(~))] a: i32 }' % nm


# ----------------------------------------------------------------------------------------------- relational part
def rel_shards(tier, seed):
    out = []
    for level in ('type', 'field', 'variant', 'parent', 'ghost', 'ghosts'):
        for fallible in (False, True):
            scs = SHORTCUTS if level in ('type', 'field', 'variant', 'parent') else ['g']
            for sc in scs:
                if level == 'parent' and (fallible or sc == 'into_existing' and False):
                    continue
                if level in ('ghost', 'ghosts') and fallible:
                    continue
                if level in ('field', 'variant') and fallible and sc == 'into_existing':
                    continue        # no fallible *_into_existing member instruction exists
                if tier == 'quick' and level in ('variant', 'field', 'type') and (SHORTCUTS.index(sc) + int(fallible) + seed) % 2:
                    continue
                out.append({'level': level, 'sc': sc, 'fallible': fallible})
    return out


def make_pair(sh):
    level, sc, fallible = sh['level'], sh['sc'], sh['fallible']
    dk = docs.doc_kinds()
    nm = docs.try_name(sc) if fallible and sc != 'g' else sc
    err = 'Er' if fallible else None

    def other_member():
        return Member('b', instrs=[MapInstr(Ch('obn', ['map', 'from_ref', 'owned_try_into']), member=('n', 'zz'), action=Ch('oba', [None, '__o(~, @)']), tag='o')])

    def make():
        if level == 'type':
            kw = dict(hint=Ch('th', ['Unspecified', 'Struct', 'Tuple']), err=err, vars=Ch('tv', [None, [('v1', '__v1(@)')]]), attribute=Ch('ta', [None, 'inline']))
            A = Spec('struct', traits=[TraitInstr(nm, 'X', tag='t', **kw)], members=[Member('a', instrs=[MapInstr(Ch('an', ['map', 'into', 'try_from', 'ref_into_existing']), member=Ch('am', [None, ('n', 'zz')]), action=Ch('aa', [None, '__e(~)']), tag='e')]), other_member()])
            B = Spec('struct', traits=[TraitInstr(b, 'X', tag='t', **kw) for b in docs.basics_of(nm, dk)], members=A.members)
            return A, B
        all_t = [TraitInstr('map', 'X', hint=Ch('th', ['Unspecified', 'Struct', 'Tuple']), tag='t1'), TraitInstr('into_existing', 'X', tag='t2'),
                 TraitInstr('try_map', 'Y', err='Er', tag='t3'), TraitInstr('try_into_existing', 'Y', err='Er', tag='t4')]
        if level == 'field':
            args = dict(ded=Ch('sd', [None, 'X', 'Y']), member=Ch('sm', [None, ('n', 'zz'), ('i', 0)]), action=Ch('sa', [None, '__e(~, @)']), tag='e')
            A = Spec('struct', traits=all_t, members=[Member('a', instrs=[MapInstr(nm, **args)]), other_member()])
            B = Spec('struct', traits=all_t, members=[Member('a', instrs=[MapInstr(b, **args) for b in docs.basics_of(nm, dk)]), other_member()])
            return A, B
        if level == 'variant':
            en_t = [TraitInstr('map', 'X', tag='t1'), TraitInstr('try_map', 'Y', err='Er', tag='t3')]
            if 'existing' in nm:
                en_t = all_t
            args = dict(ded=Ch('sd', [None, 'X', 'Y']), member=Ch('sm', [None, ('n', 'Vz')]), action=Ch('sa', [None, '__e(@)']), tag='e')
            v2 = Member('W', shape='tuple', fields=[Member(None, instrs=[MapInstr(nm, member=Ch('fm', [None, ('i', 1)]), tag='f')]), Member(None)])
            v2b = Member('W', shape='tuple', fields=[Member(None, instrs=[MapInstr(b, member=Ch('fm', [None, ('i', 1)]), tag='f') for b in docs.basics_of(nm, dk)]), Member(None)])
            A = Spec('enum', traits=en_t[:2], members=[Member('V', shape='unit', instrs=[MapInstr(nm, **args)]), v2])
            B = Spec('enum', traits=en_t[:2], members=[Member('V', shape='unit', instrs=[MapInstr(b, **args) for b in docs.basics_of(nm, dk)]), v2b])
            return A, B
        if level == 'parent':
            tr = [TraitInstr('map', 'X', hint=Ch('th', ['Unspecified', 'Struct', 'Tuple']), tag='t1'), TraitInstr('into_existing', 'X', tag='t2')]
            fa = PField(('n', 'pa'), attrs=[(nm, ('n', 'qa'), '__p(~, @)')], tag='pa')
            fb = PField(('n', 'pa'), attrs=[(b, ('n', 'qa'), '__p(~, @)') for b in docs.basics_of(nm, dk)], tag='pa')
            A = Spec('struct', traits=tr, members=[Member('par', ty='ParT', instrs=[ParentInstr(fields=[fa, PField(('n', 'pb'), tag='pb')])]), other_member()])
            B = Spec('struct', traits=tr, members=[Member('par', ty='ParT', instrs=[ParentInstr(fields=[fb, PField(('n', 'pb'), tag='pb')])]), other_member()])
            return A, B
        if level == 'ghost':
            args = dict(ded=Ch('sd', [None, 'X', 'Y']), action=Ch('sa', [None, '__g(@)']), tag='g')
            A = Spec('struct', traits=all_t, members=[Member('a', instrs=[GhostInstr('ghost', **args)]), other_member()])
            B = Spec('struct', traits=all_t, members=[Member('a', instrs=[GhostInstr('ghost_owned', **args), GhostInstr('ghost_ref', **args)]), other_member()])
            return A, B
        data = [GhostData(('n', 'gx'), '__gx(@)', tag='gx')]
        dedv = Ch('sd', [None, 'X', 'Y'])
        A = Spec('struct', traits=all_t, members=[Member('a'), other_member()], type_instrs=[GhostsInstr('ghosts', ded=dedv, data=data)])
        B = Spec('struct', traits=all_t, members=[Member('a'), other_member()], type_instrs=[GhostsInstr('ghosts_owned', ded=dedv, data=data), GhostsInstr('ghosts_ref', ded=dedv, data=data)])
        return A, B
    return make


def same(a, b):
    ka, va = a
    kb, vb = b
    if ka != kb:
        return False
    if ka == 'ok':
        return expander.flat(va) == expander.flat(vb)
    if ka == 'err':
        return sorted(str(m) for _, m in va) == sorted(str(m) for _, m in vb)
    return True


def rel_shard(ctx, sh):
    e = ctx.engine()
    tabs = expander.tables(ctx, e)
    pairs = expander.explore_pair(ctx, e, tabs, make_pair(sh))
    expander.pair_native(ctx, pairs)
    for po in pairs:
        ctx.cov['queries']['unsat' if same(po.a, po.b) else 'sat'] += 1
        if same(po.a, po.b):
            continue
        na, nb = po.nat_a, po.nat_b
        if na is None:
            continue
        native_differs = (na['status'] != nb['status']) or (na['status'] == 'ok' and expander.flat_text(na['out']) != expander.flat_text(nb['out'])) or \
                         (na['status'] == 'err' and sorted(na['errs']) != sorted(nb['errs']))
        if native_differs:
            ctx.violation('shortcut-vs-basics:%s' % sh['level'], 'shortcut=%s%s' % ('try_' if sh['fallible'] else '', sh['sc']),
                          'expansions differ: A=%s ... B=%s' % ((na['out'] or str(na['errs']) or na['msg'])[:300], (nb['out'] or str(nb['errs']) or nb['msg'])[:300]),
                          {'inputs': [po.text_a, po.text_b]})
        else:
            ctx.inconclusive.append('predicted difference not reproduced natively: %s | %s' % (po.text_a, po.text_b))
    if pairs:
        po = pairs[len(pairs) // 2]
        ctx.sample({'shard': sh, 'A': po.text_a, 'B': po.text_b, 'equal': same(po.a, po.b)})


def body(ctx):
    ctx.cov['bounds'] = {'levels': ['type', 'field', 'variant', 'nested parent', 'ghost', 'ghosts'], 'shortcuts': SHORTCUTS, 'fallible_forms': True,
                         'other_instructions': 'one more member with a symbolic mapping instruction (3-4 names x expression), symbolic dedication/rename/expression of the shortcut itself, symbolic hint/vars/attribute at type level'}
    ctx.cov['stubs'] = ['syn-driven argument parsers (inputs are post-parse models; text<->model validated natively per joint path)']
    ctx.cov['outside_claim'] = ['trait-level repeat() parameters (excluded by the property)', 'more than one shortcut occurrence per input']
    ctx.assumptions = ['README shortcut table is the reference (oracle/docs.py)', 'library models']
    kernel_tables(ctx)
    ctx.run_shards(rel_shard, rel_shards(ctx.tier, ctx.seed))


if __name__ == '__main__':
    main('C12', body)
