#!/usr/bin/env python3-vt
"""C06 — impls for one counterpart are independent of the other counterparts.

Relational: input I maps the type to counterparts X and Y; every dedicated-capable instruction (member mapping, ghost, ghosts,
child, child_parents, parent, where_clause, literal, pattern, type_hint) carries a forked dedication in {default, X, Y} and a
symbolic name where it has one.  I|X is I with Y's trait instructions and everything dedicated to Y removed.  Both are expanded
(validate + data_type_impl from MIR) under ONE path condition; the impls of I whose counterpart is X must be token-identical to
the impls of I|X.  Each joint path is confirmed on the real derive."""
import sys, os
sys.path.insert(0, os.path.dirname(os.path.abspath(__file__)))
from common import *   # noqa
import z3
import expander, decode
from spec import *     # noqa
from sweeps import Opt, BASIC_NAME
from build import KINDS, MEMBER_MAP_NAMES

DED = [None, 'X', 'Y']


def dch(n):
    return Ch(n, DED, fork=True)


class Keep:
    """wrapper: the instruction is dropped in the I|X projection when its (forked) dedication is Y"""

    def __init__(self, instr):
        self.instr = instr


def project(obj_list, ev):
    """instructions of I that survive in I|X (ev: forked dedication -> value)"""
    out = []
    for i in obj_list:
        d = getattr(i, 'ded', None)
        if isinstance(d, Ch) and ev(d) == 'Y':
            continue
        out.append(i)
    return out


class ProjSpec(Spec):
    """I|X: built from I's objects, filtered at value()/text() time by the forked dedications"""

    def __init__(self, base):
        self.base = base
        Spec.__init__(self, base.kind, base.name, base.shape, [t for t in base.traits if t.ty != 'Y'], base.members, base.type_instrs, base.tys, base.generics)

    def _filtered(self, pick):
        import copy
        members = []
        for m in self.base.members:
            m2 = copy.copy(m)
            m2.instrs = project(m.instrs, pick)
            if m.fields:
                fs = []
                for f in m.fields:
                    f2 = copy.copy(f)
                    f2.instrs = project(f.instrs, pick)
                    fs.append(f2)
                m2.fields = fs
            members.append(m2)
        return members, project(self.base.type_instrs, pick)

    def value(self, env, tabs):
        pick = lambda ch: env.pick(ch)[0]
        self.members, self.type_instrs = self._filtered(pick)
        return Spec.value(self, env, tabs)

    def text(self, ev):
        self.members, self.type_instrs = self._filtered(ev)
        return Spec.text(self, ev)


VARIANTS = ['map', 'ghost', 'ghosts', 'child', 'parent', 'where', 'enum-litpat', 'enum-hint', 'enum-ghosts']


def shards(tier, seed):
    out = []
    for v in VARIANTS:
        for kind in KINDS:
            if v.startswith('enum') and 'Existing' in kind:
                continue
            if tier == 'quick' and (KINDS.index(kind) + VARIANTS.index(v) + seed) % 2:
                continue
            out.append({'variant': v, 'kind': kind})
    return out


def make_pair(sh):
    v, kind = sh['variant'], sh['kind']
    names = [BASIC_NAME[(kind, False)], BASIC_NAME[(kind, True)]]

    def make():
        tX = TraitInstr(Ch('tXn', names), 'X', err=Ch('tXe', ['Er', None]), tag='tX')
        tY = TraitInstr(Ch('tYn', names + ['map']), 'Y', err=Ch('tYe', [None, 'Er']), tag='tY')
        members, tis = [], []
        if v == 'map':
            members = [Member('a', instrs=[MapInstr(Ch('m1n', ['map', 'from', 'into', 'into_existing', 'try_map']), ded=dch('m1d'), member=('n', 'z1'), action=Ch('m1a', [None, '__e1(~)']), tag='e1'),
                                           MapInstr(Ch('m2n', ['map', 'from_ref', 'owned_into']), ded=dch('m2d'), member=('n', 'z2'), tag='e2')]), Member('b')]
        elif v == 'ghost':
            members = [Member('a', instrs=[GhostInstr(Ch('g1n', ['ghost', 'ghost_owned', 'ghost_ref']), ded=dch('g1d'), action='__g1(@)', tag='g1'),
                                           GhostInstr(Ch('g2n', ['ghost', 'ghost_ref']), ded=dch('g2d'), action='__g2(@)', tag='g2')]), Member('b')]
        elif v == 'ghosts':
            members = [Member('a')]
            tis = [GhostsInstr(Ch('s1n', ['ghosts', 'ghosts_owned', 'ghosts_ref']), ded=dch('s1d'), data=[GhostData(('n', 'gx'), '__gx(@)', tag='gx')]),
                   GhostsInstr(Ch('s2n', ['ghosts', 'ghosts_ref']), ded=dch('s2d'), data=[GhostData(('n', 'gy'), '__gy(@)', tag='gy')])]
        elif v == 'child':
            members = [Member('a', instrs=[ChildInstr([('n', 'c')], ded=dch('c1d')), ChildInstr([('n', 'd')], ded=dch('c2d'))]), Member('b')]
            tis = [ChildParents([([('n', 'c')], 'C', 'Unspecified'), ([('n', 'd')], 'D', 'Unspecified')], ded=dch('p1d')), ChildParents([([('n', 'c')], 'C2', 'Unspecified'), ([('n', 'd')], 'D2', 'Unspecified')], ded=dch('p2d'))]
        elif v == 'parent':
            members = [Member('p', ty='P', instrs=[ParentInstr(ded=dch('q1d'), fields=[PField(('n', 'pa'), attrs=[('map', ('n', 'qa'), None)], tag='pa'), PField(('n', 'pb'), tag='pb')]),
                                                    Opt(Ch('q2p', [False, True], fork=True), ParentInstr(ded=dch('q2d')))]), Member('b')]
        elif v == 'where':
            members = [Member('a')]
            tis = [WhereInstr('T: Clone', ded=dch('w1d'), tag='w1'), WhereInstr('T: Copy', ded=dch('w2d'), tag='w2')]
        elif v == 'enum-litpat':
            tX = TraitInstr(Ch('tXn', names), 'X', err=Ch('tXe', ['Er', None]), default_case=Ch('tXd', [None, '=> __dx(@)']), tag='tX')
            members = [Member('A', shape='unit', instrs=[SimpleInstr('literal', '1', ded=dch('l1d')), SimpleInstr('literal', '2', ded=dch('l2d'))]),
                       Member('B', shape='unit', instrs=[SimpleInstr('pattern', '3..=4', ded=dch('p1d'))]), Member('C', shape='unit')]
        elif v == 'enum-hint':
            members = [Member('A', shape='named', fields=[Member('x')], instrs=[SimpleInstr('type_hint', 'Tuple', ded=dch('h1d')), SimpleInstr('type_hint', 'Struct', ded=dch('h2d')),
                                                                               MapInstr('map', ded=dch('vmd'), member=('n', 'Az'), tag='vm')]), Member('B', shape='unit')]
        else:
            members = [Member('A', shape='named', fields=[Member('x')], instrs=[GhostsInstr(Ch('vgn', ['ghosts', 'ghosts_ref']), ded=dch('vgd'), data=[GhostData(('n', 'gf'), '__gf()', tag='gf')])]),
                       Member('B', shape='unit', instrs=[GhostInstr(Ch('bgn', ['ghost', 'ghost_owned']), ded=dch('bgd'), action='{ __gb(@) }', tag='gb')])]
            tis = [GhostsInstr(Ch('s1n', ['ghosts', 'ghosts_ref']), ded=dch('s1d'), data=[GhostData(('n', 'Gone'), '__gone(@)', tag='gone')])]
            tX = TraitInstr(Ch('tXn', names), 'X', err=Ch('tXe', ['Er', None]), default_case='=> __dx(@)', tag='tX')
        item = 'enum' if v.startswith('enum') else 'struct'
        I = Spec(item, traits=[tX, tY], members=members, type_instrs=tis, tys=('X', 'Y'))
        return I, ProjSpec(I)
    return make


def impls_for(tokens_flat_source, ts, cp):
    """impl items of a token stream whose counterpart type is `cp`, as flat token tuples"""
    out = []
    for im in decode.split_impls(ts):
        args = decode.norm(im.trait_args).lstrip('&')
        if args == cp or args.endswith(cp) and args[:-len(cp)].startswith("'"):
            out.append(tuple(expander.flat(TS(list(im.pre) + list(im.raw)))))
    return out


def native_impls(nat, cp):
    out = []
    for im in nat['impls']:
        tr = im['trait'].replace(' ', '')
        arg = tr.split('<', 1)[1][:-1].lstrip('&')
        if arg == cp:
            out.append(tuple(expander.flat_text(im['text'])))
    return out


def shard_body(ctx, sh):
    e = ctx.engine()
    tabs = expander.tables(ctx, e)
    pairs = expander.explore_pair(ctx, e, tabs, make_pair(sh))
    expander.pair_native(ctx, pairs)
    for po in pairs:
        if po.a[0] != 'ok' or po.b[0] != 'ok':
            ctx.cov['sub_checks']['joint paths where I or I|X is rejected/panics (not compared)'] = ctx.cov['sub_checks'].get('joint paths where I or I|X is rejected/panics (not compared)', 0) + 1
            continue
        try:
            ia = impls_for(None, po.a[1], 'X')
            ib = impls_for(None, po.b[1], 'X')
        except ValueError as ex:
            ctx.inconclusive.append('C06: output not decodable: %s' % ex); continue
        same = ia == ib
        ctx.cov['queries']['unsat' if same else 'sat'] += 1
        if same or po.nat_a is None:
            continue
        if po.nat_a['status'] == 'ok' and po.nat_b['status'] == 'ok' and native_impls(po.nat_a, 'X') != native_impls(po.nat_b, 'X'):
            cls = sh['variant']
            ctx.violation('counterpart-leak', cls, 'impls for X change when the instructions concerning Y are removed', {'inputs': [po.text_a, po.text_b]})
        else:
            ctx.inconclusive.append('C06 difference not reproduced natively: %s | %s' % (po.text_a, po.text_b))
    ok = [p for p in pairs if p.a[0] == 'ok' and p.b[0] == 'ok']
    if ok:
        p = ok[len(ok) // 2]
        ctx.sample({'shard': sh, 'I': p.text_a, 'I|X': p.text_b})
    ctx.cov['sub_checks']['joint_paths:' + sh['variant']] = ctx.cov['sub_checks'].get('joint_paths:' + sh['variant'], 0) + len(pairs)


def body(ctx):
    ctx.cov['bounds'] = {'counterparts': ['X', 'Y'], 'instruction_kinds': VARIANTS, 'per_kind': '2 instructions with forked dedication in {default, X, Y}; symbolic names; all 6 kinds x both fallibilities for X'}
    ctx.cov['stubs'] = ['syn argument parsers (post-parse models; text<->model validated per joint path natively)']
    ctx.cov['outside_claim'] = ['three or more counterparts', 'joint paths where I or I|X is rejected by validation (no impls to compare)']
    ctx.assumptions = ['library models; decode.split_impls identifies the counterpart of an impl from its header']
    ctx.run_shards(shard_body, shards(ctx.tier, ctx.seed))


if __name__ == '__main__':
    main('C06', body)
