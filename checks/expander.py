"""Symbolic execution of the whole expander (validate + data_type_impl) on a Spec, plus the per-path
native validation against the real derive."""
import z3
from engine import Ref, Cell, Unsupported, Panic
from tokens import TS, TIdent, TPunct, TLit, TGroup, TOpq, tokenize, render
from spec import Env, Ev
from models import ErrV
import kernels
from common import Inconclusive


def tables(ctx, e):
    """name -> (fallible, applicable_to) for member and type level map instructions, from the real parsers"""
    kernels.set_structs(e.structs)
    rows, _ = kernels.summarize(ctx, e, 'member')
    mt = kernels.map_table(rows)
    rows2, _ = kernels.summarize(ctx, e, 'type')
    tt = kernels.map_table(rows2)
    return {'member_map': mt, 'trait': tt, 'member_rows': rows, 'type_rows': rows2,
            'ghost': kernels.bits_table(rows, 'Ghost'), 'ghosts_member': kernels.bits_table(rows, 'Ghosts'), 'ghosts_type': kernels.bits_table(rows2, 'Ghosts')}


def flat(ts):
    out = []
    for t in ts.items:
        if isinstance(t, TGroup):
            if t.delim == 'None':
                out.extend(flat(t.ts))
            else:
                out.append(('G', t.delim, tuple(flat(t.ts))))
        elif isinstance(t, TIdent):
            out.append(('I', t.name))
        elif isinstance(t, TPunct):
            out.append(('P', t.ch))
        elif isinstance(t, TLit):
            out.append(('L', t.text))
        else:
            out.append(('O', repr(t)))
    return out


def flat_text(s):
    return flat(tokenize(s))


class PathOut:
    __slots__ = ('res', 'kind', 'tokens', 'errors', 'panic', 'env', 'spec', 'text', 'native')

    def __init__(self, res, env, spec):
        self.res, self.env, self.spec = res, env, spec
        self.text = None
        self.native = None
        if res.kind == 'panic':
            self.kind, self.tokens, self.errors, self.panic = 'panic', None, None, (res.value, res.site)
        else:
            k, v = res.value
            self.kind = k
            self.tokens = v if k == 'ok' else None
            self.errors = v if k == 'err' else None
            self.panic = None


def explore(ctx, e, tabs, make_spec, validate_first=True, max_paths=200000):
    """make_spec() -> Spec (fresh objects each call).  Returns [PathOut]."""
    holder = {}

    def run(eng):
        env = Env(eng)
        spec = make_spec()
        dt = spec.value(env, tabs)
        eng.aux['env'], eng.aux['spec'] = env, spec
        cell = Cell(dt)
        if validate_first:
            r = eng.call_fn('validate::validate', [Ref(cell)])
            if r.d != 0:
                ev = r.p[1][0]
                return ('err', list(ev.msgs))
        ts = eng.call_fn('expand::data_type_impl', [dt])
        return ('ok', ts)
    res = e.explore(run, max_paths=max_paths)
    ctx.absorb(e, res)
    return [PathOut(r, r.aux['env'], r.aux['spec']) for r in res]


def witness_text(ctx, po, extra=()):
    mdl = ctx.model_of(po.res.pc, extra)
    if mdl is None:
        return None
    return po.spec.text(Ev(po.env, mdl))


def msg_str(m):
    from engine import FmtStr, SymStr
    if isinstance(m, str):
        return m
    return None


def native_validate(ctx, paths, what='expander'):
    """expand a witness of every path with the real derive; the outcome must match the path's prediction.
    Mismatch = my encoding is wrong (ENCODING-MISMATCH, inconclusive), never a violation."""
    todo = []
    for po in paths:
        if po.text is None:
            po.text = witness_text(ctx, po)
        if po.text is None:
            ctx.inconclusive.append('no model for an explored path (%s)' % what)
            continue
        todo.append(po)
    rs = ctx.replay.run_many([po.text for po in todo])
    bad = 0
    for po, r in zip(todo, rs):
        po.native = r
        okk = False
        why = ''
        if po.kind == 'panic':
            okk = r['status'] == 'panic'
            why = 'predicted panic %r, native %s %s' % (po.panic[0], r['status'], r.get('msg'))
        elif po.kind == 'err':
            if r['status'] == 'err':
                pred = sorted(concrete_msgs(ctx, po))
                nat = sorted(r['errs'])
                okk = pred == nat
                why = 'predicted diagnostics %r, native %r' % (pred, nat)
            else:
                why = 'predicted diagnostics, native %s %s' % (r['status'], (r.get('msg') or r.get('out') or '')[:200])
        else:
            if r['status'] == 'ok':
                a, b = flat(po.tokens), flat_text(r['out'])
                okk = a == b
                if not okk:
                    why = 'token mismatch: predicted %s ; native %s' % (render(po.tokens)[:600], r['out'][:600])
            else:
                why = 'predicted tokens, native %s %s' % (r['status'], r.get('msg') or r.get('errs'))
        if okk:
            ctx.cov['traces_validated_against_impl'] += 1
        else:
            bad += 1
            if bad <= 5:
                ctx.inconclusive.append('ENCODING-MISMATCH (%s): %s :: %s' % (what, po.text, why))
    return bad


def concrete_msgs(ctx, po):
    """diagnostic messages of an 'err' path with symbolic pieces instantiated by the witness model"""
    from engine import FmtStr, SymStr
    mdl = ctx.model_of(po.res.pc)
    out = []
    for sp, m in po.errors:
        out.append(inst_str(m, mdl))
    return out


def inst_str(m, mdl):
    from engine import FmtStr, SymStr
    if isinstance(m, str):
        return m
    if isinstance(m, SymStr):
        return m.uni[mdl.eval(m.atom, model_completion=True).as_long()]
    if isinstance(m, FmtStr):
        return ''.join(inst_str(p, mdl) for p in m.parts)
    return str(m)


# --------------------------------------------------------------------------- relational exploration

class PairOut:
    __slots__ = ('res', 'env', 'a', 'b', 'spec_a', 'spec_b', 'text_a', 'text_b', 'nat_a', 'nat_b')


def _run_one(eng, dt, validate_first=True):
    cell = Cell(dt)
    try:
        if validate_first:
            r = eng.call_fn('validate::validate', [Ref(cell)])
            if r.d != 0:
                return ('err', list(r.p[1][0].msgs))
        return ('ok', eng.call_fn('expand::data_type_impl', [dt]))
    except Panic as ex:
        return ('panic', (ex.msg, ex.site))


def explore_pair(ctx, e, tabs, make_pair, max_paths=100000):
    """make_pair() -> (specA, specB) sharing choice-variable names; both are expanded under one path condition"""
    def run(eng):
        env = Env(eng)
        sa, sb = make_pair()
        da = sa.value(env, tabs)
        db = sb.value(env, tabs)
        ra = _run_one(eng, da)
        rb = _run_one(eng, db)
        eng.aux['x'] = (env, sa, sb)
        return (ra, rb)
    res = e.explore(run, max_paths=max_paths)
    ctx.absorb(e, res)
    out = []
    for r in res:
        po = PairOut()
        po.res = r
        po.env, po.spec_a, po.spec_b = r.aux['x']
        po.a, po.b = r.value
        po.text_a = po.text_b = po.nat_a = po.nat_b = None
        out.append(po)
    return out


def pair_native(ctx, pairs):
    """render one witness per joint path and expand both sides with the real derive"""
    todo = []
    for po in pairs:
        mdl = ctx.model_of(po.res.pc)
        if mdl is None:
            ctx.inconclusive.append('no model for a joint path'); continue
        ev = Ev(po.env, mdl)
        po.text_a, po.text_b = po.spec_a.text(ev), po.spec_b.text(ev)
        todo.append(po)
    rs = ctx.replay.run_many([p.text_a for p in todo] + [p.text_b for p in todo])
    n = len(todo)
    for i, po in enumerate(todo):
        po.nat_a, po.nat_b = rs[i], rs[n + i]
        for side, pred, nat, text in (('A', po.a, po.nat_a, po.text_a), ('B', po.b, po.nat_b, po.text_b)):
            k, v = pred
            good = (k == 'panic' and nat['status'] == 'panic') or (k == 'err' and nat['status'] == 'err') or \
                   (k == 'ok' and nat['status'] == 'ok' and flat(v) == flat_text(nat['out']))
            if good:
                ctx.cov['traces_validated_against_impl'] += 1
            else:
                ctx.inconclusive.append('ENCODING-MISMATCH (pair %s): %s :: predicted %s native %s' % (side, text, k, nat['status']))


# --------------------------------------------------------------------------- generic sweep driver

_PER_PATH = {}


def sweep_shard(ctx, sh):
    """worker: explore one shard, validate natively, then apply the property's per-path oracle"""
    import importlib, sweeps
    mod = importlib.import_module(sh['_mod']) if sh['_mod'] != '__main__' else __import__('__main__')
    per_path = getattr(mod, sh['_fn'])
    e = ctx.engine()
    tabs = tables(ctx, e)
    paths = explore(ctx, e, tabs, sweeps.make(sh), max_paths=sh.get('_max_paths', 60000))
    native_validate(ctx, paths, '%s %s' % (ctx.prop, {k: v for k, v in sh.items() if not k.startswith('_')}))
    n = 0
    for po in paths:
        per_path(ctx, po, sh)
        n += 1
        if sh.get('_judge_native') and po.kind == 'ok' and po.native and po.native.get('status') == 'ok' and flat(po.tokens) != flat_text(po.native['out']):
            # the real derive disagrees with the prediction made from the post-parse model (e.g. a change in the crate's own
            # argument parsers, which this level does not execute): the encoding mismatch stays inconclusive, but the property's
            # oracle is ALSO applied to the real output, so that a genuine violation is reported as such
            import copy
            shadow = copy.copy(po)
            try:
                shadow.tokens = tokenize(po.native['out'])
                per_path(ctx, shadow, sh)
                ctx.cov['sub_checks']['paths judged on the real output after an encoding mismatch'] = ctx.cov['sub_checks'].get('paths judged on the real output after an encoding mismatch', 0) + 1
            except Exception:
                pass
    if paths:
        po = paths[(len(paths) * 7) // 11]
        ctx.sample({'shard': {k: v for k, v in sh.items() if not k.startswith('_')}, 'input': po.text, 'outcome': po.kind,
                    'output': (po.native or {}).get('out', None) and po.native['out'][:300]})
    ctx.cov['sub_checks']['paths:' + sh['family']] = ctx.cov['sub_checks'].get('paths:' + sh['family'], 0) + len(paths)


def sweep(ctx, families, per_path, extra=None, judge_native=False):
    import sweeps
    shards = sweeps.all_shards(ctx.tier, ctx.seed, families)
    for sh in shards:
        sh['_mod'] = per_path.__module__
        sh['_fn'] = per_path.__name__
        if judge_native:
            sh['_judge_native'] = True
        if extra:
            sh.update(extra)
    ctx.cov['bounds'].update({'families': families, 'shards': len(shards), 'members': '<=3 (+ghosts entries)', 'instructions_per_member': '<=2', 'counterparts': 2,
                              'symbolic_per_shard': 'instruction names, dedication, rename form, presence of expressions/defaults, ghost flavour, type hints (see checks/sweeps.py)'})
    ctx.cov['stubs'] = ['syn-driven argument parsers (Parse impls in attr.rs): inputs are post-parse models; the text<->model mapping is validated on every path by expanding the rendered witness with the real derive']
    ctx.run_shards(sweep_shard, shards)
    return shards
