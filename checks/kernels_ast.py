"""C16 part: the deliberate panic!s of ast.rs (repeat propagation), reached through the whole derive executed from MIR
(crate parsers + from_syn; syn token primitives modelled)."""
import itertools, re
import z3
import z3
from engine import Ref, Cell, Panic


def repeat_panics(ctx):
    import synmodel, c13
    e = ctx.engine()
    synmodel.install(e)
    flags = ['', '#[repeat] ', '#[stop_repeat] #[repeat] ', '#[stop_repeat] ', '#[skip_repeat] ', '#[repeat(permeate())] ']
    items = []
    for a, b, c in itertools.product(range(len(flags)), repeat=3):
        items.append(('field', '#[map(X)] struct S { %sx: i32, %sy: i32, %sz: i32 }' % (flags[a], flags[b], flags[c])))
    for a, b in itertools.product(range(4), repeat=2):
        items.append(('variant', '#[map(X)] enum E { %sA, %sB, C }' % (flags[a], flags[b])))
        items.append(('variant-field', '#[map(X)] enum E { A { %sx: i32, %sy: i32 }, B { z: i32 } }' % (flags[a], flags[b])))
        items.append(('variant-field-permeate', '#[map(X)] enum E { A { #[repeat(permeate())] x: i32 }, B { %sy: i32, %sz: i32 } }' % (flags[a], flags[b])))

    def run(eng):
        v = z3.Int('item')
        eng.assume(z3.And(v >= 0, v < len(items)))
        k = eng.decide([(i, v == i) for i in range(len(items))])
        eng.aux['k'] = k
        return c13.outcome(eng, items[k][1], {})
    res = e.explore(run)
    ctx.absorb(e, res)
    todo = [(r.aux['k'], r.value) for r in res if r.kind == 'ok']
    nat = ctx.replay.run_many([items[k][1] for k, _ in todo])
    for (k, out), n in zip(todo, nat):
        kind, text = items[k]
        if (out[0] == 'panic') != (n['status'] == 'panic'):
            ctx.inconclusive.append('ENCODING-MISMATCH (repeat kernels): %s :: engine %s native %s' % (text, out[0], n['status']))
            continue
        ctx.cov['traces_validated_against_impl'] += 1
        if out[0] == 'panic':
            ctx.violation('ast::multiple_from_syn', 'second #[repeat] without #[stop_repeat] (%s)' % ('variant' if kind == 'variant' else 'field'),
                          'derive panics: %s' % n['msg'], {'input': text, 'native': n['msg']})
    ctx.cov['sub_checks']['repeat_placements'] = len(items)


MEMBER_ARGS = ['0u8', '7usize', '-1', '"s"', 'zz', '0', 'zz, 0u8', '0u8, zz', '@', '~ as u8', '{ 1 }', 'X| 0u8', 'X| zz', 'X|', 'a.b', '1.5', '_', 'a::b', 'a::b| c', '(1, 2)', '[1]', '', 'zz, ', '0, 1', 'X| 0, ~', 'zz zz', '| zz', '0usize, @']
TYPE_ARGS = ['X', 'X as {}', 'X as ()', 'X as Unit', 'X as Foo', '(i32, i64)', 'X, E', 'X| vars(a: {1})', 'X| vars(a: 1)', 'X| ..x', 'X| return 1', 'X| _ => 1', 'X| repeat(), stop_repeat',
             'X| repeat(bogus)', 'X| attribute(inline)', '0u8', '"s"', 'X<T>', 'X<', '', 'X|', 'X| vars()', 'X| skip_repeat, skip_repeat', 'X, E, F', 'X as {} as ()', 'a::b::C<D>, e::F| vars(x: {1}, y: {2}), ..z']
OTHER = [('ghost', ['{ 1 }', 'X| { 1 }', 'X', '1', '0u8', '', 'X|', '{ }']), ('ghosts', ['a: { 1 }', 'X| a: { 1 }, 0: { 2 }', 'a.b@c: { 1 }', 'a: 1', 'A { .. }: { 1 }', 'A(..): { 1 }', '', '0u8: { 1 }', 'a@: { 1 }']),
         ('child', ['a', 'a.b', 'X| a.0', '0u8', '', 'a.', 'X|']), ('parent', ['', 'X', 'a, b', 'X| [map(c)] a, b: T', '[parent(a)] b: T', '[bogus(c)] a', '[parent(a)] [parent(b)] c', '0u8', '[map(0u8)] a']),
         ('child_parents', ['a: A', 'a: A as ()', 'a: A as {}', 'a: A as Unit', 'X| a.b: B, a: A', 'a', 'a: 0u8', '']), ('where_clause', ['T: Clone', 'X| T: Clone', '', '0u8']),
         ('literal', ['1', 'X| 1', '', '"s"']), ('pattern', ['1..=2', '_', '']), ('type_hint', ['as ()', 'as {}', 'as Unit', 'as Foo', 'X| as ()', '']), ('as_type', ['i64', 'zz, i64', 'X| 0, i64', '']),
         ('repeat', ['', 'map', 'permeate()', 'permeate(), map, ghost', 'bogus', 'permeate', 'map,'])]


def parse_layer_panics(ctx):
    """the crate's own attribute parsers (MIR, syn token primitives modelled) on odd argument token sequences, with a symbolic
    instruction name: every outcome must be tokens or diagnostics"""
    import synmodel, c13
    from engine import SymStr, Unsupported
    from build import MEMBER_MAP_NAMES, TRAIT_NAMES
    e = ctx.engine()
    synmodel.install(e)
    cases = []
    for a in MEMBER_ARGS:
        cases.append(('member', '#[map(X)] #[try_map(Y, Er)] struct S { #[SYM(%s)] a: i32, b: i32 }' % a, MEMBER_MAP_NAMES))
        cases.append(('variant-field', '#[map(X)] enum E { A { #[SYM(%s)] x: i32 } }' % a, ['map', 'from', 'into', 'try_map']))
    for a in TYPE_ARGS:
        cases.append(('type', '#[SYM(%s)] struct S { a: i32 }' % a, TRAIT_NAMES))
    for nm, argl in OTHER:
        for a in argl:
            if nm in ('ghosts', 'child_parents', 'where_clause'):
                cases.append((nm, '#[map(X)] #[%s(%s)] struct S { a: i32 }' % (nm, a), None))
                if nm == 'child_parents':
                    cases.append((nm, '#[map(X)] #[%s(%s)] struct S { #[child(a)] x: i32 }' % (nm, a), None))
                    cases.append((nm, '#[map(X as ())] #[%s(%s)] struct S(#[child(a)] i32);' % (nm, a), None))
                if nm == 'ghosts':
                    cases.append((nm, '#[map(X)] #[%s(%s)] enum E { A }' % (nm, a), None))
            elif nm in ('literal', 'pattern', 'type_hint'):
                cases.append((nm, '#[map(i32)] enum E { #[%s(%s)] A, B }' % (nm, a), None))
            else:
                cases.append((nm, '#[map(X)] #[child_parents(a: A)] struct S { #[%s(%s)] a: i32, b: i32 }' % (nm, a), None))
    done = []
    unsupported = 0
    for kind, text, uni in cases:
        def run(eng):
            sym = {}
            if uni:
                atom = z3.Int('nm')
                eng.assume(z3.And(atom >= 0, atom < len(uni)))
                sym = {'SYM': SymStr(atom, uni)}
            return c13.outcome(eng, text, sym)
        try:
            res = e.explore(run)
        except (Unsupported, ValueError, IndexError, KeyError, AttributeError, TypeError) as ex:
            unsupported += 1
            continue
        ctx.absorb(e, res)
        for r in res:
            nm = None
            if uni:
                mdl = ctx.model_of(r.pc)
                nm = uni[mdl.eval(z3.Int('nm'), model_completion=True).as_long()]
            out = r.value if r.kind == 'ok' else ('panic', r.value)
            done.append((kind, text.replace('SYM', nm) if nm else text, out))
    nat = ctx.replay.run_many([d[1] for d in done])
    dev = 0
    for (kind, text, out), n in zip(done, nat):
        if out[0] == 'panic' and n['status'] == 'panic':
            msg = str(n['msg'])
            site = 'attr.rs parse layer'
            mcode = re.search(r'unreachable code: (\w+)', msg)
            cls = 'repeat' if 'repeat' in msg else ('unwrap' if 'unwrap' in msg or 'Result::unwrap' in msg else (('unreachable:' + (mcode.group(1) if mcode else '?')) if 'unreachable' in msg else ('panic:' + msg[:24].strip())))
            ctx.violation(site, '%s/%s' % (kind, cls), 'derive panics while parsing attribute arguments: %s' % msg[:200], {'input': text, 'native': msg})
        elif (out[0] == 'panic') != (n['status'] == 'panic'):
            ctx.inconclusive.append('ENCODING-MISMATCH (parse layer, panic): %s :: engine %s native %s %s' % (text, out[0], n['status'], n.get('msg')))
        elif out[0] == n['status'] or (out[0] == 'err' and n['status'] in ('err', 'input_parse_error')):
            ctx.cov['traces_validated_against_impl'] += 1
        else:
            dev += 1
    ctx.cov['sub_checks']['parse_layer_cases'] = len(cases)
    ctx.cov['sub_checks']['parse_layer_paths'] = len(done)
    ctx.cov['sub_checks']['parse_layer_not_executable_in_model'] = unsupported
    ctx.cov['sub_checks']['parse_layer_accept_reject_deviations_of_the_syn_model (no panic involved)'] = dev
