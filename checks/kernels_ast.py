"""kernels of ast.rs (repeat propagation) — filled in by the C14 work"""


def repeat_panics(ctx):
    return
