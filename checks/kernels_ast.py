"""C16 part: the deliberate panic!s of ast.rs (repeat propagation), reached through the whole derive executed from MIR
(crate parsers + from_syn; syn token primitives modelled)."""
import itertools
import z3
from engine import Ref, Cell, Panic


def repeat_panics(ctx):
    import synmodel, c13
    e = ctx.engine()
    synmodel.install(e)
    flags = ['', '#[repeat] ', '#[stop_repeat] #[repeat] ', '#[stop_repeat] ', '#[skip_repeat] ', '#[repeat(permeate())] ']
    items = []
    for a, b, c in itertools.product(range(len(flags)), repeat=3):
        items.append(('field', '#[map(X)] struct S { %sx: i32, %sy: i32, %sz: i32 }' % (flags[a], flags[b], flags[c])))
    for a, b in itertools.product(range(4), repeat=2):
        items.append(('variant', '#[map(X)] enum E { %sA, %sB, C }' % (flags[a], flags[b])))
        items.append(('variant-field', '#[map(X)] enum E { A { %sx: i32, %sy: i32 }, B { z: i32 } }' % (flags[a], flags[b])))
        items.append(('variant-field-permeate', '#[map(X)] enum E { A { #[repeat(permeate())] x: i32 }, B { %sy: i32, %sz: i32 } }' % (flags[a], flags[b])))

    def run(eng):
        v = z3.Int('item')
        eng.assume(z3.And(v >= 0, v < len(items)))
        k = eng.decide([(i, v == i) for i in range(len(items))])
        eng.aux['k'] = k
        return c13.outcome(eng, items[k][1], {})
    res = e.explore(run)
    ctx.absorb(e, res)
    todo = [(r.aux['k'], r.value) for r in res if r.kind == 'ok']
    nat = ctx.replay.run_many([items[k][1] for k, _ in todo])
    for (k, out), n in zip(todo, nat):
        kind, text = items[k]
        if (out[0] == 'panic') != (n['status'] == 'panic'):
            ctx.inconclusive.append('ENCODING-MISMATCH (repeat kernels): %s :: engine %s native %s' % (text, out[0], n['status']))
            continue
        ctx.cov['traces_validated_against_impl'] += 1
        if out[0] == 'panic':
            ctx.violation('ast::multiple_from_syn', 'second #[repeat] without #[stop_repeat] (%s)' % ('variant' if kind == 'variant' else 'field'),
                          'derive panics: %s' % n['msg'], {'input': text, 'native': n['msg']})
    ctx.cov['sub_checks']['repeat_placements'] = len(items)
