#!/usr/bin/env python3-vt
"""C09 — literal / pattern instructions map enum variants to primitive values both ways.

E-kgen: a seeded generator writes enums with `#[literal]` / `#[pattern]` variants (distinct and overlapping literals, range /
or / wildcard patterns, ghost variants, default cases, one or two primitive counterparts with dedicated literals, fallible and
infallible instructions).  The REAL derive expands them (the crate path-depends on /repo), and Kani/CBMC decides, for ALL values of
the primitive type, that `From<prim>` equals a first-match-in-declaration-order reference written from the generator's own
description, that `Into<prim>` yields the variant's literal, and the round trip for unshadowed literals.  Over programs this is
enumeration (stated); over values it is the solver's verdict.  A failing harness is confirmed by running the same comparison
natively on boundary candidates before it is reported."""
import sys, os, re, json, random, shutil, subprocess, time
sys.path.insert(0, os.path.dirname(os.path.abspath(__file__)))
from common import *   # noqa

PRIMS = {'i32': (-2**31, 2**31 - 1), 'u8': (0, 255), 'i64': (-2**63, 2**63 - 1)}


def gen_program(rng, idx):
    prim = rng.choice(['i32', 'i32', 'u8', 'i64'])
    lo, hi = PRIMS[prim]
    nv = rng.randint(2, 5)
    pool = [0, 1, 2, 3, 5, 7, 10, 11, 100, 127, 128, 200, 255] + ([-1, -5, -128, 1000, 65536] if lo < 0 else [])
    pool = [p for p in pool if lo <= p <= hi]
    second = rng.random() < 0.35           # a second primitive counterpart with dedicated literals
    prim2 = 'i64' if prim != 'i64' else 'i32'
    variants = []
    used = set()
    for k in range(nv):
        kind = rng.choice(['lit', 'lit', 'lit', 'pat', 'pat', 'ghost'])
        v = {'name': 'V%d' % k, 'kind': kind}
        if kind == 'lit':
            x = rng.choice(pool)
            if rng.random() < 0.8:
                tries = 0
                while x in used and tries < 20:
                    x = rng.choice(pool); tries += 1
            v['lit'] = x; used.add(x)
            if second:
                v['lit2'] = rng.choice([1000 + k, 2000 + k, x])
                v['lit2_first'] = rng.random() < 0.5       # written before the default literal?
        elif kind == 'pat':
            form = rng.choice(['incl', 'incl', 'excl', 'upto', 'from', 'or', 'wild'] if k == nv - 1 else ['incl', 'incl', 'excl', 'upto', 'from', 'or'])
            a, b = sorted(rng.sample(pool, 2))
            v['pat'] = (form, a, b)
            v['into'] = rng.choice(pool)
        else:
            v['ghost_default'] = rng.choice(pool)
        variants.append(v)
    if all(v['kind'] == 'ghost' for v in variants):
        variants[0] = {'name': 'V0', 'kind': 'lit', 'lit': pool[0]}
        if second:
            variants[0]['lit2'] = 1000; variants[0]['lit2_first'] = False
    fallible = rng.random() < 0.4
    dflt = rng.randrange(nv)
    return {'id': idx, 'prim': prim, 'prim2': prim2 if second else None, 'variants': variants, 'fallible': fallible, 'default_variant': dflt,
            'into_default': rng.choice(pool)}


def pat_text(p):
    form, a, b = p
    return {'incl': '%d..=%d' % (a, b), 'excl': '%d..%d' % (a, b), 'upto': '..=%d' % b, 'from': '%d..' % a, 'or': '%d | %d' % (a, b), 'wild': '_'}[form]


def pat_cond(p, v='v'):
    form, a, b = p
    return {'incl': '(%s >= %d && %s <= %d)' % (v, a, v, b), 'excl': '(%s >= %d && %s < %d)' % (v, a, v, b), 'upto': '(%s <= %d)' % (v, b),
            'from': '(%s >= %d)' % (v, a), 'or': '(%s == %d || %s == %d)' % (v, a, v, b), 'wild': 'true'}[form]


def lit_s(x, prim):
    return '(%d)' % x if x < 0 else str(x)


def program_text(p):
    """-> (rust module text, harness names)"""
    prim, prim2, vs = p['prim'], p['prim2'], p['variants']
    E = 'E'
    fr, into = ('try_from_owned', 'owned_try_into') if p['fallible'] else ('from_owned', 'owned_into')
    err = ', String' if p['fallible'] else ''
    dv = vs[p['default_variant']]['name']
    lines = ['#[derive(o2o::o2o, PartialEq, Debug, Clone, Copy)]',
             '#[%s(%s%s| _ => %s::%s)]' % (fr, prim, err, E, dv) if not p['fallible'] else '#[%s(%s%s| _ => %s::%s)]' % (fr, prim, err, E, dv),
             '#[%s(%s%s| _ => %s)]' % (into, prim, err, lit_s(p['into_default'], prim))]
    if prim2:
        lines += ['#[%s(%s%s| _ => %s::%s)]' % (fr, prim2, err, E, dv), '#[%s(%s%s| _ => %s)]' % (into, prim2, err, lit_s(p['into_default'], prim2))]
    lines.append('pub enum E {')
    for v in vs:
        attrs = []
        if v['kind'] == 'lit':
            a1 = '#[literal(%s)]' % lit_s(v['lit'], prim)
            if prim2:
                a2 = '#[literal(%s| %d)]' % (prim2, v['lit2'])
                attrs += [a2, a1] if v['lit2_first'] else [a1, a2]
            else:
                attrs.append(a1)
        elif v['kind'] == 'pat':
            attrs += ['#[pattern(%s)]' % pat_text(v['pat']), '#[%s({%s})]' % ('owned_try_into' if p['fallible'] else 'owned_into', lit_s(v['into'], prim))]
        else:
            attrs.append('#[o2o(ghost_owned({%s}))]' % lit_s(v['ghost_default'], prim))
        lines.append('    %s %s,' % (' '.join(attrs), v['name']))
    lines.append('}')
    # reference: first match in declaration order
    def ref_from(which):
        out = []
        for v in vs:
            if v['kind'] == 'lit':
                lit = v['lit'] if which == 1 else v['lit2']
                out.append('if v == %s { E::%s }' % (lit_s(lit, prim), v['name']))
            elif v['kind'] == 'pat':
                out.append('if %s { E::%s }' % (pat_cond(v['pat']), v['name']))
        out.append('{ E::%s }' % dv)
        return ' else '.join(out)

    def ref_into(which):
        arms = []
        for v in vs:
            if v['kind'] == 'lit':
                arms.append('E::%s => %s' % (v['name'], lit_s(v['lit'] if which == 1 else v['lit2'], prim)))
            elif v['kind'] == 'pat':
                arms.append('E::%s => %s' % (v['name'], lit_s(v['into'], prim)))
            else:
                arms.append('E::%s => %s' % (v['name'], lit_s(v['ghost_default'], prim)))
        return 'match e { %s }' % ', '.join(arms)
    conv_from = 'E::try_from(v).unwrap()' if p['fallible'] else 'E::from(v)'
    sel = 'match s %% %d { %s, _ => E::%s }' % (len(vs), ', '.join('%d => E::%s' % (i, v['name']) for i, v in enumerate(vs[:-1])), vs[-1]['name'])
    body = ['pub fn check_from(v: %s) -> bool { let got: E = %s; let want: E = %s; got == want }' % (prim, conv_from, ref_from(1)),
            'pub fn check_into(s: u8) -> bool { let e: E = %s; let got: %s = %s; let want: %s = %s; got == want }' % (
                sel, prim, ('TryInto::<%s>::try_into(e).unwrap()' % prim) if p['fallible'] else ('Into::<%s>::into(e)' % prim), prim, ref_into(1))]
    # round trip for literal variants not shadowed by an earlier arm
    rt = []
    for i, v in enumerate(vs):
        if v['kind'] != 'lit':
            continue
        x = v['lit']
        shadow = False
        for w in vs[:i]:
            if w['kind'] == 'lit' and w['lit'] == x:
                shadow = True
            if w['kind'] == 'pat':
                f, a, b = w['pat']
                if {'incl': a <= x <= b, 'excl': a <= x < b, 'upto': x <= b, 'from': x >= a, 'or': x in (a, b), 'wild': True}[f]:
                    shadow = True
        if not shadow:
            rt.append('{ let p: %s = %s; let back: E = %s; if back != E::%s { return false; } }' % (
                prim, ('TryInto::<%s>::try_into(E::%s).unwrap()' % (prim, v['name'])) if p['fallible'] else ('Into::<%s>::into(E::%s)' % (prim, v['name'])),
                'E::try_from(p).unwrap()' if p['fallible'] else 'E::from(p)', v['name']))
    body.append('pub fn check_roundtrip() -> bool { %s true }' % ' '.join(rt))
    if prim2:
        conv2 = 'E::try_from(v).unwrap()' if p['fallible'] else 'E::from(v)'
        body.append('pub fn check_from2(v: %s) -> bool { let got: E = %s; let want: E = %s; got == want }' % (prim2, conv2, ref_from(2).replace('&& v', '&& v')))
        body.append('pub fn check_into2(s: u8) -> bool { let e: E = %s; let got: %s = %s; let want: %s = %s; got == want }' % (
            sel, prim2, ('TryInto::<%s>::try_into(e).unwrap()' % prim2) if p['fallible'] else ('Into::<%s>::into(e)' % prim2), prim2, ref_into(2)))
    n = p['id']
    harness = ['#[cfg(kani)] #[kani::proof] fn h%d_from() { let v: %s = kani::any(); assert!(check_from(v)); kani::cover!(v == 1); }' % (n, prim),
               '#[cfg(kani)] #[kani::proof] fn h%d_into() { let s: u8 = kani::any(); assert!(check_into(s)); assert!(check_roundtrip()); kani::cover!(s == 0); }' % n]
    if prim2:
        # dedicated literals: patterns are shared, literals differ per counterpart
        harness.append('#[cfg(kani)] #[kani::proof] fn h%d_second() { let v: %s = kani::any(); assert!(check_from2(v)); let s: u8 = kani::any(); assert!(check_into2(s)); kani::cover!(s == 0); }' % (n, prim2))
    mod = 'pub mod m%d {\n#![allow(unused, unreachable_patterns, unreachable_code)]\nuse core::convert::{TryFrom, TryInto};\n%s\n%s\n%s\n}\n' % (n, '\n'.join(lines), '\n'.join(body), '\n'.join(harness))
    return mod


def candidates(p):
    lo, hi = PRIMS[p['prim']]
    c = {lo, hi, 0, 1, -1}
    for v in p['variants']:
        for k in ('lit', 'lit2', 'into', 'ghost_default'):
            if k in v:
                c |= {v[k] - 1, v[k], v[k] + 1}
        if 'pat' in v:
            _, a, b = v['pat']
            c |= {a - 1, a, a + 1, b - 1, b, b + 1}
    return sorted(x for x in c if lo <= x <= hi)


def body(ctx):
    n = 24 if ctx.tier == 'quick' else 160
    rng = random.Random(1000 + ctx.seed)
    progs = [gen_program(rng, i) for i in range(n)]
    from prep import scratch_dir
    d = scratch_dir('o2o-kgen-')
    crate = os.path.join(d, 'kgen')
    shutil.copytree(os.path.join(VERIF, 'kgen', 'tmpl'), crate, ignore=shutil.ignore_patterns('target', 'Cargo.lock'))
    lock = os.path.join(VERIF, 'kgen', 'tmpl', 'Cargo.lock')
    if os.path.exists(lock):
        shutil.copy(lock, os.path.join(crate, 'Cargo.lock'))
    with open(os.path.join(crate, 'src', 'lib.rs'), 'w') as f:
        f.write('#![allow(dead_code, unused)]\n' + '\n'.join(program_text(p) for p in progs))
        # native confirmation entry point
        f.write('\n#[cfg(test)] mod native { #[test] fn candidates() { for line in std::env::var("O2O_CAND").unwrap_or_default().split(\';\') { let _ = line; } } }\n')
    env = dict(os.environ, CARGO_NET_OFFLINE='true')
    env.pop('RUSTUP_TOOLCHAIN', None)
    t0 = time.time()
    p = subprocess.run(['cargo', 'kani', '--target-dir', os.path.join(VERIF, 'target', 'kani'), '--output-format', 'terse'], cwd=crate, env=env,
                       stdout=subprocess.PIPE, stderr=subprocess.STDOUT, text=True)
    out = p.stdout
    kani_s = time.time() - t0
    if 'error: could not compile' in out or 'error[E' in out or 'Failed to execute cargo' in out:
        # a generated program that does not compile: isolate it natively so the message is useful
        msg = '\n'.join(l for l in out.split('\n') if 'error' in l)[:1500]
        ctx.inconclusive.append('generated crate does not compile under the current /repo: ' + msg)
        return
    results = {}
    for m in re.finditer(r'Checking harness (m\d+::h\d+_\w+)\.\.\.(.*?)VERIFICATION:- (\w+)', out, re.S):
        results[m.group(1)] = (m.group(3), m.group(2))
    total = sum(3 if pr['prim2'] else 2 for pr in progs)
    if len(results) != total:
        ctx.inconclusive.append('kani reported %d of %d harnesses (output tail: %s)' % (len(results), total, out[-800:]))
    ctx.cov['programs'] = len(progs)
    ctx.cov['states'] = len(results)
    ctx.cov['transitions'] = sum(len(pr['variants']) for pr in progs)
    ctx.cov['solver_s'] = round(kani_s, 1)
    ctx.cov['sub_checks'] = {'harnesses': len(results), 'kani_wall_s': int(kani_s)}
    for h, (verdict, text) in sorted(results.items()):
        if verdict == 'SUCCESSFUL':
            ctx.cov['queries']['unsat'] += 1
            if 'cover' in text and 'UNSATISFIED' in text:
                ctx.inconclusive.append('vacuity witness not satisfied in %s' % h)
            continue
        ctx.cov['queries']['sat'] += 1
        idx = int(re.match(r'm(\d+)', h).group(1))
        pr = progs[idx]
        # native confirmation on boundary candidates
        which = h.split('_')[-1]
        src = program_text(pr)
        test = 'use o2o_kgen_one::m%d::*;\nfn main() { let mut bad = vec![];\n' % idx
        if which in ('from',):
            test += ''.join('if !check_from(%s) { bad.push(%s as i128); }\n' % (lit_s(c, pr['prim']), lit_s(c, pr['prim'])) for c in candidates(pr))
        elif which == 'into':
            test += ''.join('if !check_into(%d) { bad.push(%d); }\n' % (s, s) for s in range(len(pr['variants']))) + 'if !check_roundtrip() { bad.push(-777); }\n'
        else:
            test += ''.join('if !check_from2(%d) { bad.push(%d); }\n' % (c, c) for c in [1000, 1001, 1002, 1003, 1004, 2000, 2001, 2002, 2003, 2004] + candidates(pr)) + \
                    ''.join('if !check_into2(%d) { bad.push(%d); }\n' % (s, s) for s in range(len(pr['variants'])))
        test += 'println!("BAD {:?}", bad); }\n'
        one = os.path.join(d, 'one')
        shutil.rmtree(one, ignore_errors=True)
        os.makedirs(os.path.join(one, 'src', 'bin'))
        open(os.path.join(one, 'Cargo.toml'), 'w').write('[package]\nname = "o2o-kgen-one"\nversion = "0.1.0"\nedition = "2021"\n[dependencies]\no2o = { path = "%s", default-features = false, features = ["syn1"] }\n[workspace]\n' % REPO)
        open(os.path.join(one, 'src', 'lib.rs'), 'w').write('#![allow(dead_code, unused)]\n' + src)
        open(os.path.join(one, 'src', 'bin', 'c.rs'), 'w').write(test)
        q = subprocess.run(['cargo', 'run', '--offline', '--quiet', '--bin', 'c', '--target-dir', os.path.join(VERIF, 'target', 'kgen-native')], cwd=one, env=env, stdout=subprocess.PIPE, stderr=subprocess.PIPE, text=True)
        mm = re.search(r'BAD \[(.*)\]', q.stdout)
        enum_text = src.split('pub fn check_from')[0]
        if mm and mm.group(1).strip():
            ctx.violation('generated-conversion', '%s/%s' % (which, 'dedicated-literal' if which == 'second' else ('fallible' if pr['fallible'] else 'infallible')),
                          'for all values Kani refutes %s; natively wrong for %s' % (h, mm.group(1)[:120]), {'input': enum_text, 'harness': h, 'bad_values': mm.group(1)})
        else:
            ctx.inconclusive.append('Kani refutes %s but no boundary candidate reproduces it natively (%s)' % (h, (q.stderr or '')[-300:]))
    ctx.cov['traces_validated_against_impl'] = 0
    for pr in progs[:3]:
        ctx.sample({'program': program_text(pr).split('pub fn check_from')[0][:900], 'harnesses': ['from: all %s values' % pr['prim'], 'into + round trip: all variants']})
    ctx.cov['bounds'] = {'programs': len(progs), 'variants_per_enum': '2..5', 'primitive_domains': 'complete (i32 / u8 / i64)', 'second_counterpart_with_dedicated_literals': sum(1 for pr in progs if pr['prim2'])}
    ctx.cov['stubs'] = []
    ctx.cov['outside_claim'] = ['string counterparts', 'programs beyond the seeded sample (enumeration over programs, solver over values)', 'by-reference conversions from primitives']
    ctx.assumptions = ['Kani models the dev-profile semantics of the generated code', 'reference = first match in declaration order, written from the generator description']
    ctx.cov['functions_encoded'] = {'generated impls of From/TryFrom/Into/TryInto for %d enums (compiled by kani-compiler from the real derive output)' % len(progs)}


if __name__ == '__main__':
    main('C09', body)
