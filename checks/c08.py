#!/usr/bin/env python3-vt
"""C08 — trait-instruction params (vars, ..update, return, attributes) act as documented.

validate + data_type_impl from MIR on the `params` sweep family: a trait instruction with a *symbolic name* (24 names, so every
impl of every shortcut is produced on some path) and symbolic presence of vars(..), ..update / return / `_ =>`, attribute(..),
impl_attribute(..), inner_attribute(..), on structs (named / tuple, with and without a bare #[parent] member) and enums.
Every generated impl is decoded (checks/slots.py) and must show: the `let` bindings = the declared vars, in order, once, before the
result; `..expr` as the last element of the literal iff declared; with `return expr` the body is exactly expr (`*other = expr;` for
into_existing); the attribute leaf directly before `fn`, the impl_attribute before `impl`, the inner_attribute first inside the fn —
on every impl the instruction yields.  Checked for every model of the path condition; predicted == real tokens per path."""
import sys, os
sys.path.insert(0, os.path.dirname(os.path.abspath(__file__)))
from common import *   # noqa
import z3
import expander, decode, slots, c01, c17
from spec import Ev, ParentInstr
from tokens import tokenize
sys.path.insert(0, os.path.join(VERIF, 'oracle'))
import docs


def nrm(text):
    return decode.norm(tokenize(text).items)


def per_path(ctx, po, sh):
    if po.kind != 'ok':
        return
    try:
        decs = {}
        for im in decode.split_impls(po.tokens):
            d = slots.decode_fn(im)
            decs[(d['kind'], d['fallible'], d['cp'])] = d
    except (ValueError, IndexError, KeyError):
        ctx.cov['sub_checks']['undecodable (C17 matter)'] = ctx.cov['sub_checks'].get('undecodable (C17 matter)', 0) + 1
        return
    dk = docs.doc_kinds()
    vars_ = [v for v, _ in po.env.vars.values()]
    models, _ = c01.all_models(ctx, po.res.pc, vars_, cap=12)
    has_bare_parent = po.spec.kind == 'struct' and any(isinstance(i, ParentInstr) and i.fields is None for m in po.spec.members for i in m.instrs)
    for mdl in models:
        ev = Ev(po.env, mdl)
        bad = None
        for t in po.spec.traits:
            name = ev(t.name)
            cp = decode.norm(tokenize(t.ty).items)
            for kind, fallible in sorted(dk[name]):
                d = decs.get((kind, fallible, cp))
                if d is None:
                    bad = ('impl-missing', '%s %s' % (kind, fallible)); break
                at = 'value' if kind in slots.FROM else 'self'
                post_init = has_bare_parent and kind not in slots.FROM
                vs = ev(t.vars) or []
                want_lets = [(n, slots.subst(a, at, None)) for n, a in vs]
                if d['lets'] != want_lets:
                    bad = ('vars', 'post-init' if post_init else kind, 'expected let-bindings %r, generated %r' % (want_lets, d['lets'])); break
                for label, x, got in (('attribute', t.attribute, d['fn_attrs']), ('inner_attribute', t.inner_attribute, d['inner_attrs'])):
                    a = ev(x)
                    want = [('#[%s]' if label == 'attribute' else '#![%s]') % nrm(a)] if a is not None else []
                    if got != want:
                        bad = (label, 'post-init' if post_init else kind, 'expected %r on fn, generated %r' % (want, got)); break
                if bad:
                    break
                ia = ev(t.impl_attribute)
                want = ('#[%s]' % nrm(ia)) if ia is not None else ''
                if d['impl_attrs'] != want:
                    bad = ('impl_attribute', kind, 'expected %r before impl, generated %r' % (want, d['impl_attrs'])); break
                q = ev(t.quick_return)
                if q is not None:
                    qq = slots.subst(q, at, None)
                    if kind in slots.EXISTING:
                        if d['assigns'] != [('*other', qq)] or d['calls']:
                            bad = ('return', kind, 'body is not `*other = %s;`: %r %r' % (qq, d['assigns'], d['calls'])); break
                    elif d['tail'] != qq or d['assigns'] or d['calls']:
                        bad = ('return', kind, 'body is not exactly `%s`: tail %s, statements %r' % (qq, d['tail'], d['stmts'])); break
                    continue
                if po.spec.kind == 'struct' and kind not in slots.EXISTING and not post_init:
                    lit = slots.parse_literal(d['tail_items'])
                    u = ev(t.update)
                    want = slots.subst(u, at, None) if u is not None else None
                    if lit['form'] == 'struct' and lit['update'] != want:
                        bad = ('update', kind, 'expected ..%s as last element, generated %r' % (want, lit['update'])); break
                    if lit['form'] == 'struct' and want is not None:
                        last = [e for e in slots.split_at(d['tail_items'][-1].ts.items, ',') if e][-1]
                        if not (len(last) > 2 and decode.is_p(last[0], '.') and decode.is_p(last[1], '.')):
                            bad = ('update', kind, '..update is not the last element of the literal'); break
            if bad:
                break
        ctx.cov['queries']['unsat' if not bad else 'sat'] += 1
        if bad:
            text = po.spec.text(ev)
            nat = ctx.replay.run(text)
            if nat['status'] == 'ok' and expander.flat_text(nat['out']) == expander.flat(po.tokens):
                ctx.violation('params', '%s/%s' % (bad[0], bad[1] if bad[1] == 'post-init' else ('from' if str(bad[1]).startswith('From') else ('into+bare-parent' if has_bare_parent else 'into'))), bad[-1], {'input': text, 'output': nat['out'][:2000]})
            else:
                ctx.inconclusive.append('C08 counterexample does not reproduce natively: %s' % text)
            return


def body(ctx):
    ctx.cov['outside_claim'] = ['`..expr` supplying exactly the fields no member provides is Rust struct-update semantics once the literal has the decoded form', 'default case arms (C02/C09)', 'evaluation order at run time (the `let` statements precede the result expression textually)']
    ctx.assumptions = ['decoder is structural; predicted == real tokens per path', 'vars/update/return expressions contain `@` only (`~` has no meaning there)']
    expander.sweep(ctx, ['params'], per_path, judge_native=True)


if __name__ == '__main__':
    main('C08', body)
