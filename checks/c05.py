#!/usr/bin/env python3-vt
"""C05 — the most specific applicable member instruction wins; others never interfere.

Encoded (from /repo's MIR): attr::parse_member_instruction (summary of name -> fallible/applicable_to),
MemberAttrs::{applicable_attr, applicable_field_attr, field_attr, field_attr_core, iter_for_kind(_core),
ghost, child, lit, pat, type_hint, parameterized_parent_attr, has_parent_attr}, ParentChildField::get_for_kind,
DataTypeAttrs::{ghosts_attr, where_attr, child_parents_attr}, the ApplicableTo Index impl, TypePath::eq, Kind::eq.
Every path's result is proved equal to the chain in the property statement (z3, unsat of pc ∧ ¬spec), and a
witness of every path is expanded by the real derive and must show the same winner.
"""
import sys, os, itertools
sys.path.insert(0, os.path.dirname(os.path.abspath(__file__)))
from common import *   # noqa
import z3
from engine import Ref, Cell, SymStr, Agg, EnumV, VecV, Unsupported
from models import some, none
from tokens import TS, TOpq
from build import B, KINDS, MEMBER_MAP_NAMES
import kernels
sys.path.insert(0, os.path.join(VERIF, 'oracle'))
import docs

GHOST_NAMES = ['ghost', 'ghost_owned', 'ghost_ref']
TYS = ('X', 'Y')
INTO_OF = {'OwnedIntoExisting': 'OwnedInto', 'RefIntoExisting': 'RefInto'}
INSTR_FOR = {('OwnedInto', False): 'owned_into', ('RefInto', False): 'ref_into', ('FromOwned', False): 'from_owned', ('FromRef', False): 'from_ref',
             ('OwnedIntoExisting', False): 'owned_into_existing', ('RefIntoExisting', False): 'ref_into_existing',
             ('OwnedInto', True): 'owned_try_into', ('RefInto', True): 'ref_try_into', ('FromOwned', True): 'try_from_owned', ('FromRef', True): 'try_from_ref',
             ('OwnedIntoExisting', True): 'owned_try_into_existing', ('RefIntoExisting', True): 'ref_try_into_existing'}


def ite_or(atom, idxs):
    return z3.Or([atom == i for i in idxs]) if idxs else z3.BoolVal(False)


class Model:
    """symbolic MemberAttrs with A map instructions and G ghosts"""

    def __init__(self, e, b, A, G, mtab, gtab):
        self.A, self.G = A, G
        names = list(MEMBER_MAP_NAMES)
        self.names = names
        dk = docs.doc_kinds()
        NONE = (False, (False,) * 6)            # a name the parser does not accept as a mapping instruction is ignored
        mtab = {n: mtab.get(n, NONE) for n in names}
        self.n, self.ded, self.fall, self.bits = [], [], [], []
        self.gn, self.gded, self.gbits = [], [], []
        self.dfall, self.dbits, self.dgbits = [], [], []      # the documented meaning (oracle side)
        attrs = []
        for i in range(A):
            n = b.fresh_int('n%d' % i, 0, len(names) - 1)
            ded = b.fresh_int('ded%d' % i, 0, len(TYS))        # 0 = default, k = dedicated to TYS[k-1]
            fall = ite_or(n, [k for k, nm in enumerate(names) if mtab[nm][0]])
            bits = [ite_or(n, [k for k, nm in enumerate(names) if mtab[nm][1][j]]) for j in range(6)]
            self.n.append(n); self.ded.append(ded); self.fall.append(fall); self.bits.append(bits)
            self.dfall.append(ite_or(n, [k for k, nm in enumerate(names) if docs.doc_bits(nm, dk)[1]]))
            self.dbits.append([ite_or(n, [k for k, nm in enumerate(names) if docs.doc_bits(nm, dk)[0][j]]) for j in range(6)])
            cty = b.opt(ded != 0, b.type_path(SymStr(ded - 1, TYS)))
            core = b.mk('attr::MemberAttrCore', container_ty=cty, member=none(), action=some(b.leaf('expr', 'e%d' % i)))
            attrs.append(b.mk('attr::MemberAttr', attr=core, fallible=fall, original_instr=SymStr(n, names), applicable_to=b.appl(bits)))
        ghosts = []
        for j in range(G):
            n = b.fresh_int('gn%d' % j, 0, len(GHOST_NAMES) - 1)
            ded = b.fresh_int('gded%d' % j, 0, len(TYS))
            bits = [ite_or(n, [k for k, nm in enumerate(GHOST_NAMES) if gtab[nm][jj]]) for jj in range(6)]
            self.gn.append(n); self.gded.append(ded); self.gbits.append(bits)
            self.dgbits.append([ite_or(n, [k for k, nm in enumerate(GHOST_NAMES) if docs.ghost_kinds(nm)[jj]]) for jj in range(6)])
            cty = b.opt(ded != 0, b.type_path(SymStr(ded - 1, TYS)))
            core = b.mk('attr::FieldGhostAttrCore', container_ty=cty, action=some(b.leaf('expr', 'g%d' % j)))
            ghosts.append(b.mk('attr::GhostAttr', attr=core, applicable_to=b.appl(bits)))
        self.value = b.mk('attr::MemberAttrs', attrs=VecV(attrs), child_attrs=VecV([]), parent_attrs=VecV([]), ghost_attrs=VecV(ghosts),
                          ghosts_attrs=VecV([]), lit_attrs=VecV([]), pat_attrs=VecV([]), repeat=none(), skip_repeat=False, stop_repeat=False,
                          type_hint_attrs=VecV([]), error_instrs=VecV([]))

    # ---- the chain of the property statement, as z3 terms
    def steps(self, kind, f):
        ki = KINDS.index(kind)
        st = [(ki, f, True), (ki, z3.BoolVal(False), f)]
        if kind in INTO_OF:
            ii = KINDS.index(INTO_OF[kind])
            st += [(ii, f, True), (ii, z3.BoolVal(False), f)]
        return st

    def rank(self, i, kind, f, q):
        """smaller = more specific; BIG = not applicable"""
        BIG = 1000
        r = z3.IntVal(BIG)
        st = self.steps(kind, f)
        for s in range(len(st) - 1, -1, -1):
            ki, fs, enabled = st[s]
            qual = z3.And(enabled, self.dfall[i] == fs, self.dbits[i][ki])
            r = z3.If(z3.And(qual, self.ded[i] == q), 2 * s, z3.If(z3.And(qual, self.ded[i] == 0), 2 * s + 1, r))
        return r

    def ghost_ok(self, j, kind, q):
        ki = KINDS.index(kind)
        return z3.And(self.dgbits[j][ki], z3.Or(self.gded[j] == q, self.gded[j] == 0))

    def spec(self, outcome, kind, f, q):
        ki = KINDS.index(kind)
        any_ghost = z3.Or([self.ghost_ok(j, kind, q) for j in range(self.G)]) if self.G else z3.BoolVal(False)
        if outcome[0] == 'ghost':
            j = outcome[1]
            ded_exists = z3.Or([z3.And(self.dgbits[k][ki], self.gded[k] == q) for k in range(self.G)])
            return z3.And(self.ghost_ok(j, kind, q), z3.Or(self.gded[j] == q, z3.Not(ded_exists)))
        ranks = [self.rank(i, kind, f, q) for i in range(self.A)]
        if outcome[0] == 'none':
            return z3.And(z3.Not(any_ghost), *[r >= 1000 for r in ranks])
        i = outcome[1]
        return z3.And(z3.Not(any_ghost), ranks[i] < 1000, *[ranks[i] <= r for r in ranks])


def classify(e, opt):
    """Option<ApplicableAttr> -> ('none',) | ('field', i) | ('ghost', j)"""
    if opt.d == 0:
        return ('none',)
    a = opt.p[1][0]
    var = e.enums['attr::ApplicableAttr'][a.d]
    core = e.deref(a.p[a.d][0])
    act = core.f[e.structs[core.ty].index('action')]
    leaf = act.p[1][0].items[0].id
    return ('field' if var == 'Field' else 'ghost', int(leaf[1:]))


def render(m, mdl, kind, fval, names):
    def iv(x):
        return mdl.eval(x, model_completion=True).as_long()
    lines = []
    for i in range(m.A):
        ded = iv(m.ded[i])
        lines.append('#[%s(%se%d())]' % (names[iv(m.n[i])], (TYS[ded - 1] + '| ') if ded else '', i))
    for j in range(m.G):
        ded = iv(m.gded[j])
        lines.append('#[%s(%s{ g%d() })]' % (GHOST_NAMES[iv(m.gn[j])], (TYS[ded - 1] + '| ') if ded else '', j))
    ti = INSTR_FOR[(kind, fval)]
    err = ', Er' if fval else ''
    return '#[%s(X%s)] #[%s(Y%s)] struct S { %s m: i32 }' % (ti, err, ti, err, ' '.join(lines))


def observed_winner(r, q, A, G):
    """what the real expansion shows for counterpart q"""
    if r['status'] != 'ok':
        return ('status', r['status'], r.get('msg') or r.get('errs'))
    for im in r['impls']:
        tr = im['trait'].replace(' ', '')
        if ('<%s>' % q) in tr or ('<&%s>' % q) in tr or ('<%s,' % q) in tr:
            body = im['text']
            hits = [('field', i) for i in range(A) if ('e%d ()' % i) in body] + [('ghost', j) for j in range(G) if ('g%d ()' % j) in body]
            if len(hits) == 1:
                return hits[0]
            if not hits:
                return ('nomarker', ' m' in body.split('{', 2)[-1] and ('. m' in body or 'm :' in body))
            return ('multiple', hits)
    return ('noimpl',)


def check_applicable_attr(ctx, A, G, kinds):
    e = ctx.engine()
    kernels.set_structs(e.structs)
    rows, uni = kernels.summarize(ctx, e, 'member')
    mtab = kernels.map_table(rows)
    gtab = kernels.bits_table(rows, 'Ghost')
    if set(gtab) != set(GHOST_NAMES):
        raise Unsupported('ghost instruction names changed: %r' % sorted(gtab))
    b = B(e)
    total = 0
    for kind in kinds:
        holder = {}

        def run(eng):
            m = Model(eng, b, A, G, mtab, gtab)
            f = eng.fresh('f', 'bool')
            q = b.fresh_int('q', 1, len(TYS))
            holder['m'], holder['f'], holder['q'] = m, f, q
            cty = b.type_path(SymStr(q - 1, TYS))
            r = eng.call_fn(eng.inherent['attr::MemberAttrs::applicable_attr'],
                            [Ref(Cell(m.value)), Ref(Cell(b.kind(kind))), f, Ref(Cell(cty))])
            # the validator's view of the same question (same path condition)
            r2 = eng.call_fn(eng.inherent['attr::MemberAttrs::applicable_field_attr'],
                             [Ref(Cell(m.value)), Ref(Cell(b.kind(kind))), f, Ref(Cell(cty))])
            eng.aux['r2'] = r2
            return r
        res = e.explore(run)
        ctx.absorb(e, res)
        m, f, q = holder['m'], holder['f'], holder['q']
        texts, expect = [], []
        for r in res:
            if r.kind != 'ok':
                ctx.violation('applicable_attr:panic', r.value, 'panic inside lookup', {'input': None})
                continue
            out = classify(e, r.value)
            good, mdl = ctx.prove(r.pc, m.spec(out, kind, f, q))
            if not good:
                fval = z3.is_true(mdl.eval(f, model_completion=True))
                txt = render(m, mdl, kind, fval, m.names)
                qv = TYS[mdl.eval(q, model_completion=True).as_long() - 1]
                rr = ctx.replay.run(txt)
                obs = observed_winner(rr, qv, A, G)
                if obs == out or (out[0] == 'ghost' and obs[0] in ('nomarker', 'ghost')) or (out[0] == 'none' and obs[0] == 'nomarker'):
                    ctx.violation('applicable_attr:%s' % kind, 'winner=%s' % (out[0],),
                                  'real derive picks %r for counterpart %s where the documented chain picks something else' % (obs, qv),
                                  {'input': txt, 'counterpart': qv, 'symbolic_result': out, 'observed': obs})
                else:
                    ctx.inconclusive.append('counterexample did not reproduce natively: %s -> %r vs %r' % (txt, obs, out))
                continue
            # agreement with the validator's lookup where the statement requires it (infallible, no ghost)
            r2 = r.aux['r2']
            if out[0] != 'ghost':
                if r2.d == 0:
                    out2 = ('none',)
                else:
                    ma = e.deref(r2.p[1][0])
                    core = ma.f[e.structs['attr::MemberAttr'].index('attr')]
                    act = core.f[e.structs['attr::MemberAttrCore'].index('action')]
                    out2 = ('field', int(act.p[1][0].items[0].id[1:]))
                if out2 != out:
                    agree, _ = ctx.prove(r.pc, f)        # may differ only when the conversion is fallible
                    if not agree:
                        ctx.violation('applicable_field_attr:%s' % kind, 'infallible-disagreement',
                                      'validator lookup %r differs from expansion lookup %r for an infallible conversion' % (out2, out), {'input': None})
            # native validation of this path
            mdl = ctx.model_of(r.pc)
            fval = z3.is_true(mdl.eval(f, model_completion=True))
            qv = TYS[mdl.eval(q, model_completion=True).as_long() - 1]
            texts.append(render(m, mdl, kind, fval, m.names))
            expect.append((out, qv))
        rs = ctx.replay.run_many(texts)
        for txt, (out, qv), rr in zip(texts, expect, rs):
            obs = observed_winner(rr, qv, A, G)
            okk = (obs == out) or (out[0] == 'none' and obs[0] == 'nomarker') or (out[0] == 'ghost' and obs[0] == 'nomarker' and not kind.startswith('From'))
            if okk:
                ctx.cov['traces_validated_against_impl'] += 1
            else:
                ctx.inconclusive.append('ENCODING-MISMATCH: %s : symbolic %r, native %r' % (txt, out, obs))
            total += 1
            if total % 97 == 1:
                ctx.sample({'input': txt, 'counterpart': qv, 'winner': list(out)})
    return total


def check_simple_lookups(ctx, N):
    """dedicated-beats-default lookups: child / lit / pat / type_hint / ghost / parameterized parent on members,
    ghosts_attr / where_attr / child_parents_attr on the type; get_for_kind's into_existing -> into fallback"""
    e = ctx.engine()
    b = B(e)
    specs = [('attr::MemberAttrs::child', 'child_attrs', 'attr::ChildAttr'),
             ('attr::MemberAttrs::lit', 'lit_attrs', 'attr::LitAttr'),
             ('attr::MemberAttrs::pat', 'pat_attrs', 'attr::PatAttr'),
             ('attr::MemberAttrs::type_hint', 'type_hint_attrs', 'attr::VariantTypeHintAttr')]
    empty = dict(attrs=VecV([]), child_attrs=VecV([]), parent_attrs=VecV([]), ghost_attrs=VecV([]), ghosts_attrs=VecV([]), lit_attrs=VecV([]),
                 pat_attrs=VecV([]), repeat=none(), skip_repeat=False, stop_repeat=False, type_hint_attrs=VecV([]), error_instrs=VecV([]))
    for fn, field, ty in specs:
        holder = {}

        def run(eng):
            deds, items = [], []
            for i in range(N):
                ded = b.fresh_int('ded%d' % i, 0, 2)
                deds.append(ded)
                cty = b.opt(ded != 0, b.type_path(SymStr(ded - 1, TYS)))
                if ty == 'attr::ChildAttr':
                    cp = b.mk('attr::ChildPath', child_path=VecV([b.named('p%d' % i)]), child_path_str=VecV(['p%d' % i]))
                    items.append(b.mk(ty, container_ty=cty, child_path=cp))
                elif ty == 'attr::VariantTypeHintAttr':
                    items.append(b.mk(ty, container_ty=cty, type_hint=b.hint(i % 3)))
                else:
                    items.append(b.mk(ty, container_ty=cty, tokens=b.leaf('lit', i)))
            kw = dict(empty); kw[field] = VecV(items)
            ma = b.mk('attr::MemberAttrs', **kw)
            q = b.fresh_int('q', 1, 2)
            holder['deds'], holder['q'] = deds, q
            cell = Cell(ma)
            r = eng.call_fn(eng.inherent[fn], [Ref(cell), Ref(Cell(b.type_path(SymStr(q - 1, TYS))))])
            if r.d == 0:
                return None
            ref = r.p[1][0]
            return ref.proj[-1][1]        # index into the vec
        res = e.explore(run)
        ctx.absorb(e, res)
        deds, q = holder['deds'], holder['q']
        for r in res:
            if r.kind != 'ok':
                ctx.violation(fn + ':panic', r.value, 'panic', {'input': None}); continue
            i = r.value
            any_ded = z3.Or([d == q for d in deds])
            any_def = z3.Or([d == 0 for d in deds])
            if i is None:
                claim = z3.And(z3.Not(any_ded), z3.Not(any_def))
            else:
                claim = z3.Or(deds[i] == q, z3.And(deds[i] == 0, z3.Not(any_ded)))
            good, mdl = ctx.prove(r.pc, claim)
            if not good:
                ctx.violation(fn, 'dedicated-vs-default', 'lookup returns element %r for %s' % (i, mdl), {'input': None, 'model': str(mdl)})
        ctx.cov['sub_checks'][fn] = len(res)

    # lookups with an eligibility bit: parameterised parent (child_fields present), type-level ghosts (applicable_to[kind]),
    # where_clause / child_parents (always eligible); plus the boolean has_parent_attr / has_parameterless_parent_attr
    dt_empty = dict(attrs=VecV([]), ghosts_attrs=VecV([]), where_attrs=VecV([]), child_parents_attrs=VecV([]), error_instrs=VecV([]))
    for fn, mode in (('attr::MemberAttrs::parameterized_parent_attr', 'parent'), ('attr::MemberAttrs::has_parent_attr', 'has_parent'),
                     ('attr::MemberAttrs::has_parameterless_parent_attr', 'has_bare_parent'), ('attr::DataTypeAttrs::where_attr', 'where'),
                     ('attr::DataTypeAttrs::child_parents_attr', 'cps'), ('attr::DataTypeAttrs::ghosts_attr', 'ghosts')):
        for kind in (KINDS if mode == 'ghosts' else [None]):
            holder = {}

            def run3(eng):
                deds, elig, items = [], [], []
                for i in range(N):
                    ded = b.fresh_int('ded%d' % i, 0, 2)
                    el = eng.fresh('el%d' % i, 'bool')
                    deds.append(ded); elig.append(el)
                    cty = b.opt(ded != 0, b.type_path(SymStr(ded - 1, TYS)))
                    if mode in ('parent', 'has_parent', 'has_bare_parent'):
                        items.append(b.mk('attr::ParentAttr', container_ty=cty, child_fields=b.opt(el, VecV([]))))
                    elif mode == 'where':
                        items.append(b.mk('attr::WhereAttr', container_ty=cty, where_clause=VecV([])))
                    elif mode == 'cps':
                        items.append(b.mk('attr::ChildParentsAttr', container_ty=cty, child_parents=VecV([])))
                    else:
                        bits = [el if KINDS[j] == kind else eng.fresh('o%d_%d' % (i, j), 'bool') for j in range(6)]
                        items.append(b.mk('attr::GhostsAttr', attr=b.mk('attr::StructGhostAttrCore', container_ty=cty, ghost_data=VecV([])), applicable_to=b.appl(bits)))
                q = b.fresh_int('q', 1, 2)
                holder['v'] = (deds, elig, q)
                qty = Ref(Cell(b.type_path(SymStr(q - 1, TYS))))
                if mode in ('parent', 'has_parent', 'has_bare_parent'):
                    kw = dict(empty); kw['parent_attrs'] = VecV(items)
                    r = eng.call_fn(eng.inherent[fn], [Ref(Cell(b.mk('attr::MemberAttrs', **kw))), qty])
                else:
                    kw = dict(dt_empty); kw[{'where': 'where_attrs', 'cps': 'child_parents_attrs', 'ghosts': 'ghosts_attrs'}[mode]] = VecV(items)
                    args = [Ref(Cell(b.mk('attr::DataTypeAttrs', **kw))), qty] + ([Ref(Cell(b.kind(kind)))] if mode == 'ghosts' else [])
                    r = eng.call_fn(eng.inherent[fn], args)
                if mode in ('has_parent', 'has_bare_parent'):
                    return ('bool', r)
                if r.d == 0:
                    return None
                ref = r.p[1][0]
                idxs = [p[1] for p in ref.proj if p[0] == 'f']
                return idxs[1]
            res = e.explore(run3)
            ctx.absorb(e, res)
            deds, elig, q = holder['v']
            for r in res:
                if r.kind != 'ok':
                    ctx.violation(fn + ':panic', r.value, 'panic', {'input': None}); continue
                v = r.value
                if mode == 'has_parent':
                    want = z3.Or([z3.Or(d == 0, d == q) for d in deds])
                    claim = (v[1] == want) if not isinstance(v[1], bool) else (want if v[1] else z3.Not(want))
                elif mode == 'has_bare_parent':
                    want = z3.Or([z3.And(z3.Not(el), z3.Or(d == 0, d == q)) for d, el in zip(deds, elig)])
                    claim = (v[1] == want) if not isinstance(v[1], bool) else (want if v[1] else z3.Not(want))
                else:
                    always = mode in ('where', 'cps')
                    el = [z3.BoolVal(True)] * N if always else elig
                    any_ded = z3.Or([z3.And(d == q, x) for d, x in zip(deds, el)])
                    any_def = z3.Or([z3.And(d == 0, x) for d, x in zip(deds, el)])
                    if v is None:
                        claim = z3.And(z3.Not(any_ded), z3.Not(any_def))
                    else:
                        claim = z3.And(el[v], z3.Or(deds[v] == q, z3.And(deds[v] == 0, z3.Not(any_ded))))
                good, mdl = ctx.prove(r.pc, claim)
                if not good:
                    ctx.violation(fn, 'dedicated-vs-default', 'lookup returns %r for %s' % (v, mdl), {'input': None, 'model': str(mdl)})
            ctx.cov['sub_checks'][fn + (':' + kind if kind else '')] = len(res)

    # get_for_kind: exact kind, else into for into_existing
    rows, uni = kernels.summarize(ctx, e, 'member')
    mtab = kernels.map_table(rows)
    names = [n for n in MEMBER_MAP_NAMES if n in mtab and not mtab[n][0]]
    for kind in KINDS:
        holder = {}

        def run2(eng):
            ns, items = [], []
            for i in range(N):
                n = b.fresh_int('n%d' % i, 0, len(names) - 1)
                ns.append(n)
                bits = [ite_or(n, [k for k, nm in enumerate(names) if mtab[nm][1][j]]) for j in range(6)]
                items.append(b.mk('attr::ParentChildFieldAttr', that_member=none(), action=none(), applicable_to=b.appl(bits)))
            pcf = b.mk('attr::ParentChildField', this_member=b.named('x'), attrs=VecV(items), sub_path=VecV([]), sub_path_tokens=TS())
            holder['ns'] = ns
            r = eng.call_fn(eng.inherent['attr::ParentChildField::get_for_kind'], [Ref(Cell(pcf)), Ref(Cell(b.kind(kind)))])
            return None if r.d == 0 else r.p[1][0].proj[-1][1]
        res = e.explore(run2)
        ctx.absorb(e, res)
        ns = holder['ns']
        ki = KINDS.index(kind)

        def bit(i, k):
            return ite_or(ns[i], [x for x, nm in enumerate(names) if docs.doc_bits(nm)[0][k]])
        for r in res:
            if r.kind != 'ok':
                ctx.violation('get_for_kind:panic', r.value, 'panic', {'input': None}); continue
            i = r.value
            exact_any = z3.Or([bit(k, ki) for k in range(N)])
            if kind in INTO_OF:
                ii = KINDS.index(INTO_OF[kind])
                into_any = z3.Or([bit(k, ii) for k in range(N)])
            else:
                ii, into_any = None, z3.BoolVal(False)
            if i is None:
                claim = z3.And(z3.Not(exact_any), z3.Not(into_any))
            else:
                claim = z3.Or(bit(i, ki), z3.And(z3.Not(exact_any), bit(i, ii))) if ii is not None else bit(i, ki)
            good, mdl = ctx.prove(r.pc, claim)
            if not good:
                ctx.violation('get_for_kind:%s' % kind, 'chain', 'returns element %r under %s' % (i, mdl), {'input': None, 'model': str(mdl)})
        ctx.cov['sub_checks']['get_for_kind:' + kind] = len(res)


def body(ctx):
    if ctx.tier == 'quick':
        A, G = 2, 1
        kinds = KINDS
    else:
        A, G = 3, 2
        kinds = KINDS
    ctx.cov['bounds'] = {'member_instructions_A': A, 'ghosts_G': G, 'counterparts': list(TYS), 'kinds': kinds,
                         'instruction_names': len(MEMBER_MAP_NAMES), 'simple_lookup_len': 3}
    ctx.cov['stubs'] = ['syn::parse2 (argument parser) returns an opaque value: names -> fallible/applicable_to only']
    ctx.cov['outside_claim'] = ['more than %d map instructions / %d ghosts on one member' % (A, G), 'as_type (fixed applicability, covered by C01/E-kgen)',
                                'which of several equally specific duplicates wins (not specified by the property)']
    ctx.assumptions = ['library models listed in coverage.models_used', 'attribute text <-> post-parse model validated per path by native replay']
    check_applicable_attr(ctx, A, G, kinds)
    check_simple_lookups(ctx, 3)


if __name__ == '__main__':
    main('C05', body)
