"""Decoders for the expander's output token tree (predicted == real, validated per path).

They are purely structural (impl / header / fn / struct-literal / match-arm / assignment shapes) and are the
*observation* side of the oracles: what the generated code does is read off here, what it should do comes from
oracle/*.py (documentation rules)."""
from tokens import TS, TIdent, TPunct, TLit, TGroup, render


def is_p(t, ch):
    return isinstance(t, TPunct) and t.ch == ch


def is_i(t, name=None):
    return isinstance(t, TIdent) and (name is None or t.name == name)


def split_top(items, ch):
    """split a token list at top-level punct `ch` (angle brackets are tracked so `Foo<A, B>` stays whole)"""
    out, cur, depth = [], [], 0
    i = 0
    while i < len(items):
        t = items[i]
        if isinstance(t, TPunct):
            if t.ch == '<':
                depth += 1
            elif t.ch == '>' and not (i > 0 and is_p(items[i - 1], '-')) and not (i > 0 and is_p(items[i - 1], '=')):
                depth = max(0, depth - 1)
            elif t.ch == ch and depth == 0:
                out.append(cur); cur = []
                i += 1
                continue
        cur.append(t)
        i += 1
    out.append(cur)
    return out


def txt(items):
    return render(TS(list(items)))


class Impl:
    __slots__ = ('pre', 'generics', 'trait_path', 'trait_args', 'self_ty', 'where', 'body', 'by_ref', 'trait_name', 'raw')


def split_impls(ts):
    """top-level token stream -> [Impl]; raises ValueError when the stream is not `(#[..])* impl .. { .. }` items"""
    items = ts.items
    out, i, n = [], 0, len(items)
    while i < n:
        pre = []
        while i < n and not (is_i(items[i], 'impl') and items[i].origin is None):
            pre.append(items[i]); i += 1
        if i >= n:
            if pre:
                raise ValueError('trailing tokens after last impl: ' + txt(pre))
            break
        j = i + 1
        while j < n and not (isinstance(items[j], TGroup) and items[j].delim == 'Brace'):
            j += 1
        if j >= n:
            raise ValueError('impl without body')
        im = Impl()
        im.pre = pre
        im.raw = items[i:j + 1]
        hdr = items[i + 1:j]
        im.body = items[j]
        # generics right after `impl`
        k = 0
        im.generics = []
        if hdr and is_p(hdr[0], '<'):
            depth = 0
            while k < len(hdr):
                if is_p(hdr[k], '<'):
                    depth += 1
                elif is_p(hdr[k], '>'):
                    depth -= 1
                    if depth == 0:
                        break
                k += 1
            im.generics = hdr[1:k]
            k += 1
        rest = hdr[k:]
        # `for` at angle depth 0
        depth, fpos = 0, None
        for x, t in enumerate(rest):
            if is_p(t, '<'):
                depth += 1
            elif is_p(t, '>'):
                depth -= 1
            elif depth == 0 and is_i(t, 'for') and t.origin is None:
                fpos = x; break
        if fpos is None:
            raise ValueError('impl header without `for`: ' + txt(hdr))
        tr = rest[:fpos]
        after = rest[fpos + 1:]
        wpos = None
        depth = 0
        for x, t in enumerate(after):
            if is_p(t, '<'):
                depth += 1
            elif is_p(t, '>'):
                depth -= 1
            elif depth == 0 and is_i(t, 'where') and t.origin is None:
                wpos = x; break
        im.self_ty = after if wpos is None else after[:wpos]
        im.where = [] if wpos is None else after[wpos + 1:]
        # trait path and its <args>
        a = None
        for x, t in enumerate(tr):
            if is_p(t, '<'):
                a = x; break
        if a is None or not is_p(tr[-1], '>'):
            raise ValueError('trait without generic argument: ' + txt(tr))
        im.trait_path = tr[:a]
        im.trait_args = tr[a + 1:-1]
        im.trait_name = ''.join(t.name if isinstance(t, TIdent) else t.ch for t in im.trait_path)
        out.append(im)
        i = j + 1
    return out


class Body:
    __slots__ = ('error_ty', 'attrs', 'fn_name', 'fn_args', 'fn_ret', 'block', 'extra')


def parse_impl_body(im):
    """-> Body ; raises ValueError on unexpected structure"""
    items = im.body.ts.items
    b = Body()
    b.error_ty, b.attrs, b.extra = None, [], []
    i, n = 0, len(items)
    while i < n:
        t = items[i]
        if is_i(t, 'type') and t.origin is None:
            j = i
            while j < n and not is_p(items[j], ';'):
                j += 1
            seg = items[i:j]
            if len(seg) < 4 or not is_i(seg[1], 'Error') or not is_p(seg[2], '='):
                raise ValueError('unexpected associated type: ' + txt(seg))
            b.error_ty = seg[3:]
            i = j + 1
        elif is_p(t, '#'):
            b.attrs.append(items[i:i + 2]); i += 2
        elif is_i(t, 'fn') and t.origin is None:
            b.fn_name = items[i + 1].name
            b.fn_args = items[i + 2]
            j = i + 3
            ret = []
            while j < n and not (isinstance(items[j], TGroup) and items[j].delim == 'Brace'):
                ret.append(items[j]); j += 1
            b.fn_ret = ret[2:] if len(ret) >= 2 and is_p(ret[0], '-') else ret
            b.block = items[j]
            i = j + 1
        else:
            b.extra.append(t); i += 1
    return b


def norm(items):
    """whitespace-free text of a token list (for comparing small type expressions)"""
    out = []
    for t in items:
        if isinstance(t, TGroup):
            o, c = {'Parenthesis': '()', 'Brace': '{}', 'Bracket': '[]', 'None': ('', '')}[t.delim]
            out.append(o + norm(t.ts.items) + c)
        elif isinstance(t, TIdent):
            out.append(t.name + ' ')
        elif isinstance(t, TPunct):
            out.append(t.ch)
        else:
            out.append(t.text + ' ')
    return ''.join(out).replace(' ', '')
