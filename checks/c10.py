#!/usr/bin/env python3-vt
"""C10 — `@` and `~` are substituted everywhere; all other user tokens pass through.

(a) expand::replace_tilde_or_at_in_expr (MIR) on a bounded token tree whose every token is classified by forked choices
    (ident / literal / punct `~` / punct `@` / any other punct char (z3 Int over all of `char`, symbolic spacing) /
    group with each of the 4 delimiters), nesting depth <= 2; the result must equal the homomorphic substitution.
(b) expand::quote_action (MIR) with symbolic conversion kind, impl type (struct / enum / variant) and presence of the
    member path: `@` and `~` stand for what the property statement says.
(c) on every accepted path of the expander sweeps: each user expression (member instruction, ghost, ghosts, vars, update,
    return, default case, variant expression) reaches the output with its own tokens in order and with no `~`/`@` left."""
import sys, os
sys.path.insert(0, os.path.dirname(os.path.abspath(__file__)))
from common import *   # noqa
import z3
import expander
from engine import Ref, Cell, EnumV, Agg, VecV, Unsupported
from models import some, none, IdentV
from tokens import TS, TIdent, TPunct, TLit, TGroup, DELIMS, tokenize, render
from build import B, KINDS, HINTS

LEAF = ['I', 'L', 'P~', 'P@', 'Po']


def build_tree(e, b, shape, path='t', out_vars=None):
    """shape: list of per-token specs: 'leaf' or ('group', inner shape).  Returns (TS, description list)"""
    items, desc = [], []
    for i, sp in enumerate(shape):
        nm = '%s%d' % (path, i)
        cases = list(LEAF) + ([('G', d) for d in DELIMS] if sp != 'leaf' else [])
        v = z3.Int('k_' + nm)
        e.assume(z3.And(v >= 0, v < len(cases)))
        k = e.decide([(j, v == j) for j in range(len(cases))])
        c = cases[k]
        if c == 'I':
            items.append(TIdent('id_' + nm, 'in')); desc.append(('I', 'id_' + nm))
        elif c == 'L':
            items.append(TLit('"~@' + nm + '"', 'in')); desc.append(('L', '"~@' + nm + '"'))
        elif c in ('P~', 'P@'):
            j = z3.Bool('j_' + nm)
            items.append(TPunct(c[1], j, 'in')); desc.append((c,))
        elif c == 'Po':
            ch = z3.Int('ch_' + nm)
            e.assume(z3.And(ch >= 0, ch <= 0x10FFFF, ch != ord('~'), ch != ord('@')))
            j = z3.Bool('j_' + nm)
            items.append(TPunct(ch, j, 'in')); desc.append(('Po', ch, j))
        else:
            inner, idesc = build_tree(e, b, sp[1], nm + '_')
            items.append(TGroup(c[1], inner, 'in')); desc.append(('G', c[1], idesc))
    return TS(items), desc


AT = [('I', 'AT1'), ('P', '.'), ('I', 'AT2')]
TILDE = [('I', 'TI1'), ('P', ':'), ('I', 'TI2')]


def reference(desc):
    out = []
    for d in desc:
        if d[0] == 'P~':
            out.extend(TILDE)
        elif d[0] == 'P@':
            out.extend(AT)
        elif d[0] == 'Po':
            out.append(('Po', d[1], d[2]))
        elif d[0] == 'G':
            out.append(('G', d[1], reference(d[2])))
        else:
            out.append(d)
    return out


def observed(ts):
    out = []
    for t in ts.items:
        if isinstance(t, TGroup):
            out.append(('G', t.delim, observed(t.ts)))
        elif isinstance(t, TIdent):
            out.append(('I', t.name))
        elif isinstance(t, TLit):
            out.append(('L', t.text))
        elif isinstance(t, TPunct):
            if isinstance(t.ch, str):
                out.append(('P', t.ch))
            else:
                out.append(('Po', t.ch, t.joint))
        else:
            out.append(('?', repr(t)))
    return out


def same_struct(a, b):
    """-> z3 condition under which the two descriptions denote the same token tree (False when shapes differ)"""
    if len(a) != len(b):
        return False
    conds = []
    for x, y in zip(a, b):
        if x[0] != y[0]:
            return False
        if x[0] == 'G':
            if x[1] != y[1]:
                return False
            c = same_struct(x[2], y[2])
            if c is False:
                return False
            if c is not True:
                conds.append(c)
        elif x[0] == 'Po':
            conds.append(x[1] == y[1])
            if x[2] is not y[2]:
                conds.append(x[2] == y[2])
        elif x != y:
            return False
    return z3.And(conds) if conds else True


def desc_text(desc, mdl):
    out = []
    for d in desc:
        if d[0] == 'I':
            out.append(d[1])
        elif d[0] == 'L':
            out.append(d[1])
        elif d[0] in ('P~', 'P@'):
            out.append(d[0][1])
        elif d[0] == 'Po':
            out.append('<U+%04X>' % mdl.eval(d[1], model_completion=True).as_long())
        elif d[0] == 'P':
            out.append(d[1])
        else:
            o, c = {'Parenthesis': '()', 'Brace': '{}', 'Bracket': '[]', 'None': ('∅(', ')∅')}[d[1]]
            out.append(o + ' ' + desc_text(d[2], mdl) + ' ' + c)
    return ' '.join(out)


def to_real_text(desc, mdl):
    """an attribute-text rendering of the input expression, when it has one (None-delimited groups and arbitrary chars do not)"""
    out = []
    for d in desc:
        if d[0] in ('I', 'L'):
            out.append(d[1])
        elif d[0] in ('P~', 'P@'):
            out.append(d[0][1])
        elif d[0] == 'Po':
            c = chr(mdl.eval(d[1], model_completion=True).as_long())
            out.append(c if c in '+-*/%^&|!=<>.,;:?#$' else '+')
        else:
            if d[1] == 'None':
                return None
            o, c = {'Parenthesis': '()', 'Brace': '{}', 'Bracket': '[]'}[d[1]]
            inner = to_real_text(d[2], mdl)
            if inner is None:
                return None
            out.append(o + ' ' + inner + ' ' + c)
    return ' '.join(out)


def part_a(ctx, shape_id):
    shapes = {0: [('group', [('group', ['leaf']), 'leaf']), 'leaf'],
              1: ['leaf', ('group', ['leaf', ('group', ['leaf'])])],
              2: [('group', ['leaf']), ('group', ['leaf'])],
              3: ['leaf', 'leaf', 'leaf']}
    shape = shapes[shape_id]
    e = ctx.engine()
    b = B(e)
    hold = {}

    def run(eng):
        ts, desc = build_tree(eng, b, shape)
        eng.aux['desc'] = desc
        at = TS([TIdent('AT1'), TPunct('.'), TIdent('AT2')])
        ti = TS([TIdent('TI1'), TPunct(':'), TIdent('TI2')])
        return eng.call_fn('expand::replace_tilde_or_at_in_expr', [Ref(Cell(ts)), some(Ref(Cell(at))), some(Ref(Cell(ti)))])
    res = e.explore(run, max_paths=400000)
    ctx.absorb(e, res)
    n = 0
    for r in res:
        desc = r.aux['desc']
        if r.kind != 'ok':
            ctx.violation('replace_tilde_or_at_in_expr', 'panic', 'panic on a token tree: %s' % r.value, {'input': None})
            continue
        ref = reference(desc)
        obs = observed(r.value)
        cond = same_struct(ref, obs)
        good, mdl = ctx.prove(r.pc, cond if cond is not True else True) if cond is not False else (False, ctx.model_of(r.pc))
        n += 1
        if good:
            continue
        has_none = 'None' in repr(desc)
        text = to_real_text(desc, mdl)
        site = 'replace_tilde_or_at_in_expr'
        cls = 'none-delimited-group' if (has_none and not cond_without_none(desc, r.value)) else 'substitution'
        detail = 'input  %s\nexpect %s\ngot    %s' % (desc_text(desc, mdl), desc_text(ref, mdl), desc_text(obs, mdl))
        confirmed = None
        if text is not None:
            src = '#[from(X)] struct S { #[from(%s)] a: i32 }' % text
            nat = ctx.replay.run(src)
            confirmed = nat['status'] == 'ok' and ('~' in nat['out'].replace('"~@', '') or '@' in nat['out'].replace('"~@', '').replace('~@', ''))
            if not confirmed and nat['status'] == 'ok':
                # compare the real output's expression with the reference rendered as text
                want = expander.flat(tokenize(to_real_text(ref_for_from(desc), mdl) or ''))
                confirmed = str(want)[1:-1] not in str(expander.flat_text(nat['out']))
            ctx.violation(site, cls, detail, {'input': src, 'symbolic_tree': desc_text(desc, mdl)}) if confirmed else ctx.inconclusive.append('C10(a) counterexample not reproduced natively: ' + src)
        else:
            # no textual form (None-delimited group / exotic char): the tree itself is the replay object
            ctx.violation(site, cls, detail, {'input': None, 'symbolic_tree': desc_text(desc, mdl), 'note': 'input has no attribute-text form (e.g. a None-delimited group produced by macro_rules); see crates/replay for text inputs'})
    ctx.cov['sub_checks']['a:shape%d' % shape_id] = n
    if res:
        r = res[len(res) // 3]
        mdl = ctx.model_of(r.pc)
        ctx.sample({'part': 'a', 'input_tree': desc_text(r.aux['desc'], mdl), 'output_tree': desc_text(observed(r.value), mdl) if r.kind == 'ok' else r.value})


def ref_for_from(desc):
    """reference substitution as an input-like description with `~` -> value.a and `@` -> value (From, named struct)"""
    out = []
    for d in desc:
        if d[0] == 'P~':
            out.extend([('I', 'value'), ('Po2', '.'), ('I', 'a')])
        elif d[0] == 'P@':
            out.append(('I', 'value'))
        elif d[0] == 'G':
            out.append(('G', d[1], ref_for_from(d[2])))
        else:
            out.append(d)
    return [x if x[0] != 'Po2' else ('L', x[1]) for x in out]


def cond_without_none(desc, out_ts):
    """is the output correct if None-delimited groups are read as transparent? (classification of the known None-group defect)"""
    def flat_ref(d):
        o = []
        for x in reference(d):
            o.extend(strip_none([x]))
        return o

    def strip_none(l):
        o = []
        for x in l:
            if x[0] == 'G' and x[1] == 'None':
                o.extend(strip_none(x[2]))
            elif x[0] == 'G':
                o.append(('G', x[1], strip_none(x[2])))
            else:
                o.append(x)
        return o
    return same_struct(strip_none(reference(desc)), strip_none(observed(out_ts))) is False


def part_a_shard(ctx, sh):
    part_a(ctx, sh['shape'])


# ----------------------------------------------------------------------------------------------- (b) quote_action
def part_b(ctx):
    e = ctx.engine()
    b = B(e)
    hold = {}

    def run(eng):
        kd = b.fresh_int('kind', 0, 5)
        it = b.fresh_int('impl', 0, 2)
        pf = eng.fresh('postfix', 'bool')
        # without a member path `~` has no documented meaning (vars / update / return): only `@` is checked there
        with_post = eng.branch(pf)
        hold['v'] = (kd, it, pf)
        ta = b.mk('attr::TraitAttrCore', ty=b.type_path('X'), err_ty=none(), type_hint=b.hint('Unspecified'), init_data=none(), update=none(), quick_return=none(),
                  default_case=none(), repeat=none(), skip_repeat=False, stop_repeat=False, attribute=none(), impl_attribute=none(), inner_attribute=none())
        dst = TS([TIdent('DST', 'user')]); src = TS([TIdent('SRC', 'user')])
        names = e.structs['expand::ImplContext']
        vals = {'input': Ref(Cell(None)), 'impl_type': EnumV('expand::ImplType', it, {}), 'struct_attr': Ref(Cell(ta)), 'kind': EnumV('attr::Kind', kd, {}),
                'dst_ty': Ref(Cell(dst)), 'src_ty': Ref(Cell(src)), 'has_post_init': False, 'fallible': False}
        ctxv = Agg('expand::ImplContext', [vals[n] for n in names])
        action = tokenize('f(~, [@, {~}])' if with_post else 'f(1, [@, {2}])', 'act')
        post = TS([TIdent('P1', 'user'), TPunct('.'), TIdent('P2', 'user')])
        popt = EnumV('std::option::Option', z3.If(pf, 1, 0), {1: [Ref(Cell(post))]})
        return eng.call_fn('expand::quote_action', [Ref(Cell(action)), popt, Ref(Cell(ctxv))])
    res = e.explore(run)
    ctx.absorb(e, res)
    kd, it, pf = hold['v']
    for r in res:
        if r.kind != 'ok':
            ctx.violation('quote_action', 'panic', r.value, {'input': None}); continue
        got = render(r.value)
        # expected text per (kind class, impl type, postfix)
        alts = []
        for from_kind in (True, False):
            for impl in (0, 1, 2):
                for post in (True, False):
                    at = 'value' if from_kind else 'self'
                    p = 'P1 . P2' if post else ''
                    tilde = {0: ('%s . %s' % (at, p)).strip(), 1: ('DST :: %s' % p).strip(), 2: p}[impl]
                    exp = render(tokenize('f(%s, [%s, {%s}])' % (tilde, at, tilde))) if post else render(tokenize('f(1, [%s, {2}])' % at))
                    kc = z3.Or(kd == KINDS.index('FromOwned'), kd == KINDS.index('FromRef'))
                    cond = z3.And(kc if from_kind else z3.Not(kc), it == impl, pf if post else z3.Not(pf))
                    alts.append(z3.And(cond, z3.BoolVal(exp == got)))
        good, mdl = ctx.prove(r.pc, z3.Or(alts))
        if not good:
            ctx.violation('quote_action', 'placeholder-meaning', 'quote_action yields `%s` under %s' % (got, mdl), {'input': None, 'model': str(mdl)})
    ctx.cov['sub_checks']['b:quote_action_paths'] = len(res)


# ----------------------------------------------------------------------------------------------- (c) global invariant on sweeps
def dfs(ts, out):
    for t in ts.items:
        if isinstance(t, TGroup):
            out.append(('G', t.delim, t.origin))
            dfs(t.ts, out)
            out.append(('g', t.delim, t.origin))
        elif isinstance(t, TPunct):
            out.append(('P', t.ch, t.origin))
        elif isinstance(t, TIdent):
            out.append(('I', t.name, t.origin))
        elif isinstance(t, TLit):
            out.append(('L', t.text, t.origin))
    return out


ACTION_TAG_PREFIXES = ('e0', 'e1', 'g0', 'g1', 'gx', 'gy', 'hx', 'gz', 'f0', 'f1', 'fg', 'gv', 'v1', 'gone', 'gtwo', 'gf', 'pc', 't1:', 't2:', 'pa', 'o')


def per_path_c(ctx, po, sh):
    if po.kind != 'ok':
        return
    from spec import Ev
    seq = dfs(po.tokens, [])
    by = {}
    for k, v, o in seq:
        if isinstance(o, str) and not o.startswith(('ty:', 'fty:', 'err:', 'user', 'gen:', 'targ:')) and ':attr' not in o and ':iattr' not in o and ':nattr' not in o and not o.endswith(':destr'):
            by.setdefault(o, []).append((k, v))
    mdl = None
    bad = None
    for tag, got in by.items():
        if any(k == 'P' and v in ('~', '@') for k, v in got):
            bad = ('placeholder-survives', tag)
            break
    if bad is None:
        # each tagged expression must appear as whole copies of its own token sequence (minus placeholders)
        import spec as _spec
        for tag, got in by.items():
            src = _spec.LEAF_SRC.get(tag)
            if src is None:
                continue
            one = [(k, v) for k, v, o in dfs(tokenize(src, tag), []) if not (k == 'P' and v in ('~', '@')) and k not in ('G', 'g')]
            got = [x for x in got if x[0] not in ('G', 'g')]
            if not one:
                continue
            if len(got) % len(one) != 0 or any(got[i] != one[i % len(one)] for i in range(len(got))):
                bad = ('tokens-altered', tag)
                break
    if bad and po.native is not None and po.native['status'] == 'ok':
        ctx.violation('expander-output', bad[0], 'user expression `%s`: %s' % (bad[1], 'a `~`/`@` survives in the generated code' if bad[0] == 'placeholder-survives' else 'its tokens do not reach the output unchanged and in order'), {'input': po.text, 'output': po.native['out'][:1500]})
    ctx.cov['queries']['unsat'] += 1


def body(ctx):
    ctx.cov['bounds'] = {'a': 'token trees of depth <= 2 with <= 3 tokens per level (4 shapes); punct char: any char via z3 Int; spacing symbolic; all 4 delimiters at every level',
                         'b': 'all 6 kinds x 3 impl types x postfix present/absent', 'c': 'every accepted path of the flat/params/ghosts/enum/parent sweep families'}
    ctx.cov['stubs'] = ['(c) as the expander sweeps: syn argument parsers stubbed']
    ctx.cov['outside_claim'] = ['where an expression starts/ends in the attribute text (try_parse_action, parse layer)', 'token trees deeper than 2 / wider than 3']
    ctx.assumptions = ['token model of proc_macro2 (tokens.py)', 'library models']
    ctx.run_shards(part_a_shard, [{'shape': i} for i in range(4)])
    part_b(ctx)
    expander.sweep(ctx, ['flat', 'params', 'ghosts', 'enum', 'parent'], per_path_c)


if __name__ == '__main__':
    main('C10', body)
