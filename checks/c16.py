#!/usr/bin/env python3-vt
"""C16 — expansion never panics.

validate + data_type_impl are executed symbolically (MIR) over the sweep families; every path that ends in
panic!/unreachable!/todo!/unwrap-on-None/index assert is a counterexample and is reported only when the real
derive panics on the rendered witness.  The repeat kernels of ast.rs (deliberate panic!) are covered by
kernels_ast.repeat_panics."""
import sys, os, re
sys.path.insert(0, os.path.dirname(os.path.abspath(__file__)))
from common import *   # noqa
import expander, kernels_ast


def panic_site(po):
    msg, site = po.panic
    fn = site.split('::{closure')[0].split(':bb')[0] if site else '?'
    fn = re.sub(r'<impl at [^>]*>', '<impl>', fn)
    return fn, msg


def per_path(ctx, po, sh):
    if po.kind == 'panic':
        fn, msg = panic_site(po)
        nat = po.native
        if nat is not None and nat['status'] == 'panic':
            ctx.violation(fn, msg, 'derive panics: %s' % nat['msg'], {'input': po.text, 'native': nat['msg']})
    elif po.native is not None and po.native['status'] == 'panic':
        ctx.inconclusive.append('native panic on a path predicted %s: %s' % (po.kind, po.text))


def body(ctx):
    ctx.cov['outside_claim'] = ['argument token sequences beyond the menus of kernels_ast.py (the parse layer is executed on ~400 odd argument lists with a symbolic instruction name)', 'panics inside syn / quote / proc-macro2 themselves', 'shapes beyond the sweep families (see bounds)']
    ctx.assumptions = ['library models (coverage.models_used)', 'a predicted panic is reported only when the real derive panics on the rendered witness']
    expander.sweep(ctx, ['flat', 'params', 'ghosts', 'child', 'parent', 'enum'], per_path)
    kernels_ast.repeat_panics(ctx)
    kernels_ast.parse_layer_panics(ctx)


if __name__ == '__main__':
    main('C16', body)
