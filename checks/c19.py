#!/usr/bin/env python3-vt
"""C19 — expansion is a deterministic function of the input.

validate + data_type_impl run from MIR twice under ONE path condition: once with every HashMap/HashSet iterating in insertion
order, once with the iteration order of every unordered container a forked choice over all permutations (n <= 3; rotations and
reversal beyond) — the model of "all process-level hash seeds".  The two results (token tree, or the *sequence* of diagnostics)
must be identical.  Any use of time / environment / RandomState-dependent API would be an unmodelled callee (inconclusive, exit 2).
A predicted difference is confirmed by expanding the witness 24 times with the real derive (fresh RandomState each) and comparing."""
import sys, os, itertools
sys.path.insert(0, os.path.dirname(os.path.abspath(__file__)))
from common import *   # noqa
import z3
import expander, sweeps
from engine import Ref, Cell, Panic
from spec import Env, Ev


def perm_hook(eng, n):
    k = eng.aux.setdefault('perm_sites', 0)
    eng.aux['perm_sites'] = k + 1
    if n <= 3:
        perms = list(itertools.permutations(range(n)))
    else:
        base = list(range(n))
        perms = [tuple(base[i:] + base[:i]) for i in range(n)] + [tuple(reversed(base))]
    v = z3.Int('perm_%d' % k)
    eng.assume(z3.And(v >= 0, v < len(perms)))
    j = eng.decide([(i, v == i) for i in range(len(perms))])
    return perms[j]


def run_once(eng, dt):
    cell = Cell(dt)
    try:
        r = eng.call_fn('validate::validate', [Ref(cell)])
        if r.d != 0:
            return ('err', [m for _, m in r.p[1][0].msgs])
        return ('ok', expander.flat(eng.call_fn('expand::data_type_impl', [dt])))
    except Panic as ex:
        return ('panic', ex.msg)


def shard_body(ctx, sh):
    import time as _t
    _t0 = _t.time()
    e = ctx.engine()
    tabs = expander.tables(ctx, e)
    make = sweeps.make(sh)

    def run(eng):
        env = Env(eng)
        spec = make()
        dt = spec.value(env, tabs)
        eng.aux['x'] = (env, spec)
        eng.hash_order = 'insertion'
        a = run_once(eng, dt)
        eng.hash_order = perm_hook
        try:
            b = run_once(eng, dt)
        finally:
            eng.hash_order = 'insertion'
        return a, b
    res = e.explore(run, max_paths=200000)
    ctx.absorb(e, res)
    diffs = {}
    for r in res:
        if r.kind != 'ok':
            ctx.inconclusive.append('engine-level panic in C19: %s' % r.value); continue
        a, b = r.value
        same = (a[0] == b[0]) and (str(a[1]) == str(b[1]))
        ctx.cov['queries']['unsat' if same else 'sat'] += 1
        if not same:
            env, spec = r.aux['x']
            key = (a[0], b[0])
            if key not in diffs or len(r.pc) < len(diffs[key][0].pc):
                diffs[key] = (r, env, spec, a, b)
    for key, (r, env, spec, a, b) in diffs.items():
        mdl = ctx.model_of(r.pc)
        text = spec.text(Ev(env, mdl))
        outs = ctx.replay.run_many([text] * 24)
        variants = {(o['status'], o['out'], tuple(o['errs'])) for o in outs}
        what = 'diagnostics-order' if a[0] == 'err' and sorted(map(str, a[1])) == sorted(map(str, b[1])) else ('tokens' if a[0] == 'ok' else 'outcome')
        if len(variants) > 1:
            ctx.violation('hash-order', what, '%d different results in 24 expansions of one input' % len(variants), {'input': text, 'variants': [list(map(str, v))[:3] for v in list(variants)[:3]]})
        else:
            ctx.inconclusive.append('predicted order dependence (%s) not observed in 24 native expansions: %s' % (what, text))
    ok = [r for r in res if r.kind == 'ok']
    if ok:
        r = ok[len(ok) // 2]
        env, spec = r.aux['x']
        ctx.sample({'shard': {k: v for k, v in sh.items() if not k.startswith('_')}, 'input': spec.text(Ev(env, ctx.model_of(r.pc))), 'outcome': r.value[0][0], 'hash_iteration_sites': r.aux.get('perm_sites', 0)})
    ctx.cov['sub_checks']['paths:' + sh['family']] = ctx.cov['sub_checks'].get('paths:' + sh['family'], 0) + len(res)
    ctx.cov['sub_checks']['secs:%s' % '/'.join(str(v) for k, v in sorted(sh.items()) if not k.startswith('_'))] = int(_t.time() - _t0)


# ---- the parse layer: get_data_type_attrs keeps the active trait-level repeat() carriers in a HashMap
W_NAMES_12 = ['from_owned', 'try_from_owned', 'owned_into', 'try_owned_into', 'map', 'try_map', 'from', 'try_from']
W_NAMES_34 = ['from_owned', 'try_from_owned', 'owned_into', 'try_owned_into']
W_FLAGS = [('repeat(), ', 'stop_repeat, repeat(), '), ('repeat(), ', 'repeat(), '), ('repeat(vars), ', 'stop_repeat, repeat(quick_return), '), ('repeat(), ', '')]


def derive_shard(ctx, sh):
    """whole derive (crate parsers from MIR) on four trait instructions with symbolic names, the first two carrying repeat():
    insertion order vs every permutation of each HashMap iteration"""
    import synmodel, c13
    from engine import SymStr
    e = ctx.engine()
    synmodel.install(e)
    f1, f2 = W_FLAGS[sh['flags']]
    item = sh['item']
    UNIS = {1: W_NAMES_12, 2: W_NAMES_12, 3: W_NAMES_34, 4: W_NAMES_34}

    def text_for(fall):
        er = [', Er' if f else '' for f in fall]
        return item.replace('{ATTRS}', '#[N1(A%s| %svars(v: { 1 }), return __a(@))] #[N2(B%s| %svars(w: { 2 }), return __b(@))] #[N3(C%s)] #[N4(D%s)]' % (er[0], f1, er[1], f2, er[2], er[3]))

    def run(eng):
        sym, fall = {}, []
        for i in (1, 2, 3, 4):
            fv = z3.Int('wf%d' % i)
            eng.assume(z3.And(fv >= 0, fv <= 1))
            f = eng.decide([(0, fv == 0), (1, fv == 1)])
            fall.append(f)
            uni = [n for n in UNIS[i] if n.startswith('try') == bool(f)]
            a = z3.Int('wn%d' % i)
            eng.assume(z3.And(a >= 0, a < len(uni)))
            sym['N%d' % i] = SymStr(a, uni)
        text = text_for(fall)
        eng.aux['w'] = (text, fall)
        eng.hash_order = 'insertion'
        a = c13.outcome(eng, text, sym, raw=True)
        eng.hash_order = perm_hook
        try:
            b = c13.outcome(eng, text, sym, raw=True)
        finally:
            eng.hash_order = 'insertion'
        return a, b
    res = e.explore(run, max_paths=200000)
    ctx.absorb(e, res)
    diffs = {}
    for r in res:
        if r.kind != 'ok':
            ctx.inconclusive.append('engine-level panic in C19 (whole derive): %s' % r.value); continue
        a, b = r.value
        same = str(a) == str(b)
        ctx.cov['queries']['unsat' if same else 'sat'] += 1
        if not same and (a[0], b[0]) not in diffs:
            diffs[(a[0], b[0])] = (r, a, b)
    for key, (r, a, b) in diffs.items():
        mdl = ctx.model_of(r.pc)
        t, fall = r.aux['w']
        for i in (1, 2, 3, 4):
            uni = [n for n in UNIS[i] if n.startswith('try') == bool(fall[i - 1])]
            t = t.replace('N%d(' % i, uni[mdl.eval(z3.Int('wn%d' % i), model_completion=True).as_long()] + '(')
        outs = ctx.replay.run_many([t] * 24)
        variants = {(o['status'], o['out'], tuple(o['errs'])) for o in outs}
        if len(variants) > 1:
            ctx.violation('hash-order', 'parse-layer/trait-repeat', '%d different results in 24 expansions of one input' % len(variants), {'input': t, 'variants': [list(map(str, v))[:3] for v in list(variants)[:3]]})
        else:
            ctx.inconclusive.append('predicted order dependence in the parse layer not observed in 24 native expansions: %s' % t)
    ok_res = [r for r in res if r.kind == 'ok']
    if ok_res:
        ctx.sample({'part': 'whole-derive/trait-repeat', 'input': ok_res[len(ok_res) // 2].aux['w'][0], 'outcome': ok_res[len(ok_res) // 2].value[0][0]})
    ctx.cov['sub_checks']['paths:whole-derive/trait-repeat'] = ctx.cov['sub_checks'].get('paths:whole-derive/trait-repeat', 0) + len(res)


def body(ctx):
    fams = ['misuse', 'child', 'ghosts', 'flat']
    shards = sweeps.all_shards(ctx.tier, ctx.seed, fams)
    if ctx.tier == 'quick':
        keep = []
        for i, s in enumerate(shards):
            if (s['family'] == 'misuse' and s['variant'] not in ('A2', 'EA2')) or (s['family'] == 'child' and s['shape'] == 'named' and (i + ctx.seed) % 2 == 0) or (i + ctx.seed) % 5 == 0:
                keep.append(s)
        shards = keep
    ctx.cov['bounds'] = {'families': fams, 'shards': len(shards), 'hash_orders': 'all permutations for containers of <= 3 entries, rotations + reversal beyond'}
    ctx.cov['stubs'] = ['syn argument parsers (post-parse models)', 'HashMap/HashSet are models whose iteration order is a decided choice']
    ctx.cov['outside_claim'] = ['nondeterminism inside syn/quote/proc-macro2 themselves', 'the parse layer beyond the trait-level repeat() bookkeeping of get_data_type_attrs (its only unordered container), which the whole-derive part covers']
    ctx.assumptions = ['a difference between processes can only come from iteration order of std HashMap/HashSet (RandomState); any other source would be an unmodelled callee and stop the check']
    ctx.run_shards(shard_body, shards)
    ctx.run_shards(derive_shard, [{'flags': f, 'item': it} for f in range(len(W_FLAGS)) for it in ('{ATTRS} struct S { a: i32 }', '{ATTRS} enum E { A }')])


if __name__ == '__main__':
    main('C19', body)
