#!/usr/bin/env python3-vt
"""C20 — generated code names only ::core, o2o::traits, the prelude and user names.

Provenance check on the predicted token tree of every accepted path (each token carries its origin: pushed by the
crate's own quote! code, or copied from the input); the predicted tree equals the real output on every path
(native validation), so the verdict transfers to the real expansion."""
import sys, os, re
sys.path.insert(0, os.path.dirname(os.path.abspath(__file__)))
from common import *   # noqa
import expander
from tokens import TIdent, TPunct, TGroup, TLit

KEYWORDS = {'impl', 'for', 'fn', 'type', 'let', 'mut', 'match', 'self', 'where', '_', 'as'}
FIXED = {'value', 'other', 'obj', 'Error', 'Ok', 'Default', 'default', 'from', 'try_from', 'into', 'try_into', 'into_existing', 'try_into_existing', 'o2o'}
PATHS = [('core', 'convert', 'From'), ('core', 'convert', 'TryFrom'), ('core', 'convert', 'Into'), ('core', 'convert', 'TryInto'), ('core', 'result', 'Result'),
         ('o2o', 'traits', 'IntoExisting'), ('o2o', 'traits', 'TryIntoExisting')]
PATH_IDENTS = {x for p in PATHS for x in p}


def walk(ts, out, depth=0):
    items = ts.items
    i = 0
    while i < len(items):
        t = items[i]
        if isinstance(t, TGroup):
            walk(t.ts, out, depth + 1)
        elif isinstance(t, TIdent) and t.origin is None:
            nm = t.name
            if nm in ('std', 'alloc'):
                out.append('crate-introduced `%s`' % nm)
            elif nm in ('core', 'o2o') and not (i > 0 and isinstance(items[i - 1], TPunct) and items[i - 1].ch == "'"):
                # must start one of the allowed paths: [::] a :: b :: c
                seq = []
                j = i
                while j < len(items) and len(seq) < 3:
                    if isinstance(items[j], TIdent):
                        seq.append(items[j].name)
                        j += 1
                        if j + 1 < len(items) and isinstance(items[j], TPunct) and items[j].ch == ':' and isinstance(items[j + 1], TPunct) and items[j + 1].ch == ':':
                            j += 2
                        else:
                            break
                    else:
                        break
                if tuple(seq) not in PATHS:
                    out.append('crate-introduced path %s' % '::'.join(seq))
                if nm == 'core' and not (i >= 2 and isinstance(items[i - 1], TPunct) and items[i - 1].ch == ':' and isinstance(items[i - 2], TPunct) and items[i - 2].ch == ':'):
                    out.append('`core` path without leading `::`')
                i = j
                continue
            elif nm in KEYWORDS or nm in FIXED or nm in PATH_IDENTS or re.match(r'f\d+$', nm):
                pass
            else:
                out.append('crate-introduced identifier `%s`' % nm)
        i += 1


def per_path(ctx, po, sh):
    if po.kind != 'ok':
        return
    bad = []
    walk(po.tokens, bad)
    for b in sorted(set(bad)):
        if po.native is not None and po.native['status'] == 'ok':
            ctx.violation('provenance', b.split('`')[0].strip() + ' ' + (b.split('`')[1] if '`' in b else b.split(' ')[-1]), b, {'input': po.text, 'output': po.native['out'][:1500]})
    ctx.cov['queries']['unsat'] += 1      # one provenance obligation per accepted path (structural, decided on the path's concrete output)


def body(ctx):
    ctx.cov['outside_claim'] = ['names inside user-supplied tokens (they are the user\'s)', 'compiling a witness under #![no_std] (rustc is not encoded)']
    ctx.assumptions = ['origin tags of the token model: a token is user-originated iff it was copied from an input leaf or from the type definition',
                       'predicted output == real output (validated natively per path)']
    expander.sweep(ctx, ['flat', 'params', 'ghosts', 'child', 'parent', 'enum'], per_path)


if __name__ == '__main__':
    main('C20', body)
