"""Families of symbolic derive inputs (Specs) shared by the expander-level checks.

A *shard* is a small picklable dict; `make(shard)` returns a zero-argument factory of fresh Spec
objects for it.  Inside a shard the instruction names, dedication, rename form, presence of
actions/defaults, ghost flavour ... are symbolic; struct shape, conversion kind, fallibility and
type hint are the shard's concrete coordinates (they would otherwise multiply every path)."""
import sys, os
sys.path.insert(0, os.path.join(os.path.dirname(os.path.dirname(os.path.abspath(__file__))), 'oracle'))
from spec import *       # noqa
from build import KINDS, MEMBER_MAP_NAMES, TRAIT_NAMES
import docs

BASIC_NAME = {}
for _b, _k in docs.BASIC.items():
    BASIC_NAME[(_k, False)] = _b
    BASIC_NAME[(_k, True)] = docs.try_name(_b)
HINTS4 = ['Unspecified', 'Struct', 'Tuple', 'Unit']
E0 = '__e0(~, [@.q], {~.r})'
G1 = '__g1(@)'


def flat_shards(tier, seed, kinds=None):
    out = []
    for shape in ('named', 'tuple'):
        for ki, kind in enumerate(kinds or KINDS):
            for fallible in (False, True):
                for hi, hint in enumerate(HINTS4):
                    out.append({'family': 'flat', 'shape': shape, 'kind': kind, 'fallible': fallible, 'hint': hint})
    if tier == 'quick':
        # every (shape, kind, fallible) once; the hint rotates with the seed
        out = [s for i, s in enumerate(out) if (HINTS4.index(s['hint']) == (KINDS.index(s['kind']) + int(s['fallible']) + (s['shape'] == 'tuple') + seed) % 4)]
    return out


def make_flat(sh):
    shape, kind, fallible, hint = sh['shape'], sh['kind'], sh['fallible'], sh['hint']
    tn = BASIC_NAME[(kind, fallible)]
    err = 'Er' if fallible else None

    def make():
        t1 = TraitInstr(tn, 'X', hint=hint, err=err, tag='t1')
        t2 = TraitInstr(tn, 'Y', hint=hint, err=err, tag='t2')
        nm = (lambda s: s) if shape == 'named' else (lambda s: None)
        m0 = Member(nm('a'), instrs=[MapInstr(Ch('m0n', MEMBER_MAP_NAMES), ded=Ch('m0d', [None, 'X', 'Y']), member=Ch('m0m', [None, ('n', 'zz'), ('i', 1)]),
                                              action=Ch('m0a', [None, E0]), tag='e0')])
        m1 = Member(nm('b'), instrs=[GhostInstr(Ch('g1n', ['ghost', 'ghost_owned', 'ghost_ref']), ded=Ch('g1d', [None, 'X']), action=Ch('g1a', [None, G1]), tag='g1')])
        m2 = Member(nm('c'))
        return Spec('struct', shape=shape, traits=[t1, t2], members=[m0, m1, m2])
    return make



# ------------------------------------------------------------------------------------------ params
TAILS = [None, 'upd', 'ret', 'dflt']


def params_shards(tier, seed):
    out = []
    for kindset in ('struct', 'enum'):
        for shape in (('named', 'tuple') if kindset == 'struct' else ('enum',)):
            for tail in TAILS:
                if tier == 'quick' and shape == 'tuple' and TAILS.index(tail) != seed % 4:
                    continue
                out.append({'family': 'params', 'item': kindset, 'shape': shape, 'tail': tail})
    out.append({'family': 'params', 'item': 'struct', 'shape': 'named', 'tail': None, 'parent': True})
    out.append({'family': 'params', 'item': 'struct', 'shape': 'named', 'tail': 'ret', 'parent': True})
    return out


def make_params(sh):
    item, shape, tail = sh['item'], sh['shape'], sh['tail']

    def make():
        kw = {}
        if tail == 'upd':
            kw['update'] = '__upd(@)'
        elif tail == 'ret':
            kw['quick_return'] = '__ret(@)'
        elif tail == 'dflt':
            kw['default_case'] = '=> __dflt(@)'
        t1 = TraitInstr(Ch('tn', TRAIT_NAMES), 'X', err=Ch('te', [None, 'Er']), vars=Ch('tv', [None, [('v1', '__v1(@)'), ('v2', '__v2(v1, @.k)')], [('v1', '__v1(@)'), ('v1', '__v2(v1, @.k)'), ('v2', '__v3(v1)')]], fork=True),     # third form: a re-bound name (shadowing): every binding is kept, in order
                        attribute=Ch('ta', [None, 'inline(always)']), impl_attribute=Ch('tia', [None, 'cfg(any())']), inner_attribute=Ch('tna', [None, 'allow(unused)']), tag='t1', **kw)
        if item == 'struct':
            nm = (lambda s: s) if shape == 'named' else (lambda s: None)
            m0 = Member(nm('a'), instrs=[MapInstr('map', action='__e0(~, v1)', tag='e0')])
            m1 = Member(nm('b'))
            if sh.get('parent'):
                return Spec('struct', shape=shape, traits=[t1], members=[m0, m1, Member(nm('par'), ty='ParT', instrs=[ParentInstr()])])
            return Spec('struct', shape=shape, traits=[t1], members=[m0, m1])
        v0 = Member('A', shape='unit', instrs=[SimpleInstr('literal', '1')])
        v1 = Member('B', shape='tuple', fields=[Member(None)])
        return Spec('enum', traits=[t1], members=[v0, v1])
    return make


# ------------------------------------------------------------------------------------------ type-level ghosts
def ghosts_shards(tier, seed):
    out = []
    for shape in ('named', 'tuple'):
        for kind in KINDS:
            for fallible in ((False, True) if tier == 'thorough' else (bool((KINDS.index(kind) + seed) % 2),)):
                if tier == 'quick' and (KINDS.index(kind) + (shape == 'tuple') + seed) % 2:
                    continue
                out.append({'family': 'ghosts', 'shape': shape, 'kind': kind, 'fallible': fallible})
    return out


def make_ghosts(sh):
    shape, kind, fallible = sh['shape'], sh['kind'], sh['fallible']
    tn = BASIC_NAME[(kind, fallible)]
    err = 'Er' if fallible else None

    def make():
        t1 = TraitInstr(tn, 'X', hint=Ch('th', ['Unspecified', 'Tuple'] if shape == 'named' else ['Unspecified', 'Struct']), err=err, update=Ch('tu', [None, '__upd(@)']), tag='t1')
        t2 = TraitInstr(tn, 'Y', err=err, tag='t2')
        nm = (lambda s: s) if shape == 'named' else (lambda s: None)
        g = ('n', 'gx') if shape == 'named' else ('i', 2)
        g2 = ('n', 'gy') if shape == 'named' else ('i', 3)
        gi = GhostsInstr(Ch('gsn', ['ghosts', 'ghosts_owned', 'ghosts_ref']), ded=Ch('gsd', [None, 'X', 'Y']), data=[GhostData(g, '__gx(@)', tag='gx'), GhostData(g2, '__gy(@.a)', tag='gy')])
        gj = GhostsInstr(Ch('gsn2', ['ghosts_owned', 'ghosts_ref']), ded=Ch('gsd2', ['X', 'Y']), data=[GhostData(g, '__hx(@)', tag='hx')])
        m0 = Member(nm('a'), instrs=[GhostInstr(Ch('g0n', ['ghost', 'ghost_ref']), action=Ch('g0a', [None, '__g0(@)']), tag='g0')])
        m1 = Member(nm('b'))
        return Spec('struct', shape=shape, traits=[t1, t2], members=[m0, m1], type_instrs=[gi, gj])
    return make


# ------------------------------------------------------------------------------------------ child / child_parents
import itertools
CHILD_MENU = [None, [('n', 'c1')], [('n', 'c1'), ('n', 'c2')], [('n', 'd1')], [('n', 'c1'), ('n', 'c3')], [('n', 'c12')]]


def child_shards(tier, seed):
    out = []
    for shape in ('named', 'tuple'):
        for kind in KINDS:
            for fallible in (False, True):
                if tier == 'quick' and ((KINDS.index(kind) + (shape == 'tuple') + seed) % 2 or fallible != bool(KINDS.index(kind) % 2)):
                    continue
                if shape == 'named' and kind in ('OwnedInto', 'RefIntoExisting') and not fallible or (tier == 'quick' and shape == 'named' and kind == 'OwnedInto'):
                    out.append({'family': 'child', 'shape': shape, 'kind': kind, 'fallible': fallible, 'menu': [0, 1], 'ghost_order': 'interleaved'})
                out.append({'family': 'child', 'shape': shape, 'kind': kind, 'fallible': fallible, 'menu': [0, 1, 2, 5] if (tier == 'quick' and kind in ('OwnedInto', 'RefInto')) else ([0, 1, 2, 3] if tier == 'quick' else [0, 1, 2, 3, 4, 5])})
    return out


def make_child(sh):
    shape, kind, fallible, menu = sh['shape'], sh['kind'], sh['fallible'], sh['menu']
    tn = BASIC_NAME[(kind, fallible)]
    err = 'Er' if fallible else None

    def make():
        t1 = TraitInstr(tn, 'X', err=err, tag='t1')
        nm = (lambda s: s) if shape == 'named' else (lambda s: None)
        members = []
        for i in range(3):
            members.append(('L%d' % i, Ch('lay%d' % i, menu, fork=True)))
        spec_members = []

        class LazyChild(ChildInstr):
            pass
        out = []
        for i, (nmv, ch) in enumerate(members):
            ins = [OptChild(ch)]
            if i == 0:
                ins.append(MapInstr('map', member=Ch('m0m', [None, ('n', 'zz'), ('i', 0)]), action=Ch('m0a', [None, '__e0(~, @)']), tag='e0'))
            out.append(Member(nm('f%d' % i), instrs=ins))
        entries = [([('n', 'c1')], 'C1', 'Unspecified'), ([('n', 'c1'), ('n', 'c2')], 'C2', 'Unspecified'), ([('n', 'd1')], 'D1', 'Unspecified'), ([('n', 'c1'), ('n', 'c3')], 'C3', 'Unspecified'), ([('n', 'c12')], 'C12', 'Unspecified')]
        cp = ChildParents(entries)
        gds = [GhostData(('n', 'gz'), '__gz(@)', path=[('n', 'c1')], tag='gz'), GhostData(('n', 'gv'), '__gv(@)', path=[('n', 'c1'), ('n', 'c3')], tag='gv'),
               GhostData(('n', 'gw'), '__gw(@)', path=[('n', 'd1')], tag='gw')]
        if sh.get('ghost_order') == 'interleaved':
            gds = [gds[0], gds[2], gds[1]]
        if kind in ('OwnedIntoExisting', 'RefIntoExisting'):
            # a tuple position of a nested struct addressed through its child path (only expressible as an assignment)
            gds = gds + [GhostData(('i', 7), '__gi(@)', path=[('n', 'd1')], tag='gi')]
        gd = GhostsInstr('ghosts', data=gds)
        return Spec('struct', shape=shape, traits=[t1], members=out, type_instrs=[cp] + ([gd] if shape == 'named' else []))
    return make


class OptChild:
    """#[child(path)] whose path is a forked choice over CHILD_MENU indices (0 = no child instruction)"""

    def __init__(self, ch):
        self.ch = ch

    def inner(self, c):
        return None if CHILD_MENU[c] is None else ChildInstr(CHILD_MENU[c])


# ------------------------------------------------------------------------------------------ parent
def parent_shards(tier, seed):
    out = []
    for shape in ('named', 'tuple'):
        for kind in KINDS:
            for variant in ('bare', 'param', 'nested'):
                out.append({'family': 'parent', 'shape': shape, 'kind': kind, 'variant': variant})
            out.append({'family': 'parent', 'shape': shape, 'kind': kind, 'variant': 'nested', 'deep_first': True})
    return out


def make_parent(sh):
    shape, kind, variant = sh['shape'], sh['kind'], sh['variant']
    names = [BASIC_NAME[(kind, False)], BASIC_NAME[(kind, True)]]

    def make():
        # both fallibilities: the instruction name and the presence of the error type are symbolic (mismatches are rejected by validation)
        t1 = TraitInstr(Ch('tn', names), 'X', err=Ch('te', [None, 'Er']), hint=Ch('th', ['Unspecified', 'Struct', 'Tuple']), tag='t1')
        t2 = TraitInstr(Ch('tn2', names), 'Y', err=Ch('te2', [None, 'Er']), tag='t2')
        nm = (lambda s: s) if shape == 'named' else (lambda s: None)
        if variant == 'bare':
            p = ParentInstr(ded=Ch('pd', [None, 'X', 'Y']))
        elif variant == 'param':
            p = ParentInstr(ded=Ch('pd', [None, 'X']), fields=[PField(('n', 'pa'), attrs=[('map', ('n', 'qa'), None)], tag='pa'), PField(('n', 'pb'), attrs=[('owned_into', ('n', 'qo'), None), ('ref_into', ('n', 'qr'), None)], tag='pb'),
                                                             PField(('n', 'pc'), attrs=[('from', None, '__pc(~, @)'), ('into', ('n', 'qc'), '__pc2(~)')], tag='pc')])
        else:
            fa = PField(('n', 'na'), attrs=[('map', ('n', 'ma'), None)], sub_path=[(('n', 'sub'), 'SubT')], tag='na')
            fb = PField(('n', 'nb'), sub_path=[(('n', 'sub'), 'SubT'), (('n', 'deep'), 'DeepT')], tag='nb')
            # both listing orders inside the nested level: the direct child of `sub` before / after the deeper entry
            p = ParentInstr(ded=None, fields=[PField(('n', 'pa'), tag='pa')] + ([fa, fb] if not sh.get('deep_first') else [fb, fa]))
        m0 = Member(nm('par'), ty='ParT', instrs=[p])
        m1 = Member(nm('b'), instrs=[MapInstr('map', member=Ch('m1m', [None, ('n', 'zz')]), tag='e1')])
        return Spec('struct', shape=shape, traits=[t1, t2], members=[m1, m0] if variant == 'bare' else [m0, m1])
    return make


# ------------------------------------------------------------------------------------------ enums
def enum_shards(tier, seed):
    out = []
    for kind in ('FromOwned', 'FromRef', 'OwnedInto', 'RefInto'):
        for fallible in (False, True):
            for variant in ('plainA', 'plainB', 'litpat', 'ghosts'):
                if tier == 'quick' and (KINDS.index(kind) + int(fallible) + ['plainA', 'plainB', 'litpat', 'ghosts'].index(variant) + seed) % 2:
                    continue
                out.append({'family': 'enum', 'kind': kind, 'fallible': fallible, 'variant': variant})
        out.append({'family': 'enum', 'kind': kind, 'fallible': kind.startswith('Ref'), 'variant': 'plainB', 'with_d': True})
        for fallible in (False, True):
            out.append({'family': 'enum', 'kind': kind, 'fallible': fallible, 'variant': 'fieldnames'})
    return out


def make_enum(sh):
    kind, fallible, variant = sh['kind'], sh['fallible'], sh['variant']
    tn = BASIC_NAME[(kind, fallible)]
    err = 'Er' if fallible else None

    def make():
        if variant == 'plainA':
            t1 = TraitInstr(tn, 'X', err=err, tag='t1')
            t2 = TraitInstr(tn, 'Y', err=err, tag='t2')
            v0 = Member('A', shape='unit', instrs=[MapInstr(Ch('v0n', MEMBER_MAP_NAMES), ded=Ch('v0d', [None, 'X', 'Y']), member=Ch('v0m', [None, ('n', 'Az')]), action=Ch('v0a', [None, '__e0(@)']), tag='e0')])
            v1 = Member('B', shape='tuple', fields=[Member(None), Member(None)], instrs=[MapInstr('map', member=Ch('v1m', [None, ('n', 'Bz')]), tag='e1')])
            v2 = Member('C', shape='named', fields=[Member('x'), Member('y')])
            return Spec('enum', traits=[t1, t2], members=[v0, v1, v2])
        if variant == 'plainB':
            t1 = TraitInstr(tn, 'X', err=err, tag='t1')
            v1 = Member('B', shape='tuple', fields=[Member(None, instrs=[MapInstr('map', member=Ch('f0m', [None, ('n', 'fz'), ('i', 1)]), action=Ch('f0a', [None, '__f0(~, @)']), tag='f0')]), Member(None, instrs=[MapInstr('map', member=Ch('f1m', [None, ('n', 'fy'), ('i', 0)]), tag='f1')])],
                        instrs=[SimpleInstr('type_hint', Ch('v1h', ['Unspecified', 'Struct', 'Tuple', 'Unit']), ded=Ch('v1hd', [None, 'X']))])
            v2 = Member('C', shape='named', fields=[Member('x', instrs=[GhostInstr(Ch('f1g', ['ghost', 'ghost_owned', 'ghost_ref']), action=Ch('f1a', [None, '__g(@)']), tag='fg')]), Member('y', instrs=[MapInstr('map', member=Ch('f2m', [None, ('n', 'yy'), ('i', 0)]), tag='f2')])],
                        instrs=[SimpleInstr('type_hint', Ch('v2h', ['Unspecified', 'Struct', 'Tuple', 'Unit']))])      # f2n: fallible-only names on a payload field (they apply to the Try kinds only)
            v3 = Member('D', shape='tuple', fields=[Member(None, instrs=[GhostInstr(Ch('d0g', ['ghost', 'ghost_owned']), action=Ch('d0a', ['__gd(@)', None]), tag='gd')]),
                                                    Member(None, instrs=[MapInstr('map', member=Ch('d1m', [('n', 'd1'), None]), tag='d1')]), Member(None, instrs=[MapInstr('map', member=('n', 'd2'), action=Ch('d2a', [None, '__d2(~)']), tag='d2')])],
                        instrs=[SimpleInstr('type_hint', Ch('v3h', ['Struct', 'Unspecified']))])
            if sh.get('with_d'):
                return Spec('enum', traits=[t1], members=[v3, v2])
            return Spec('enum', traits=[t1], members=[v1, v2])
        if variant == 'fieldnames':
            # payload fields WITHOUT ghost neighbours whose instruction name ranges over direction- and fallibility-specific names
            t1 = TraitInstr(tn, 'X', err=err, tag='t1')
            names = ['map', 'from', 'into', 'try_from', 'try_into', 'try_map', 'from_ref', 'ref_into']
            v1 = Member('C', shape='named', fields=[Member('x'), Member('y', instrs=[MapInstr(Ch('g2n', names), member=Ch('g2m', [('n', 'yy'), None]), action=Ch('g2a', [None, '__f(~)']), tag='g2')])],
                        instrs=[SimpleInstr('type_hint', Ch('w1h', ['Unspecified', 'Struct', 'Tuple']))])
            v2 = Member('T', shape='tuple', fields=[Member(None), Member(None, instrs=[MapInstr(Ch('g3n', names), member=Ch('g3m', [('i', 0), ('n', 'tt'), None]), tag='g3')])],
                        instrs=[SimpleInstr('type_hint', Ch('w2h', ['Unspecified', 'Struct', 'Tuple']))])
            return Spec('enum', traits=[t1], members=[Member('A', shape='unit'), v1, v2])
        if variant == 'litpat':
            t1 = TraitInstr(tn, 'i32', err=err, default_case=Ch('td', [None, '=> __dflt(@)']), tag='t1')
            t2 = TraitInstr(tn, 'Y', err=err, tag='t2')
            la, lb = SimpleInstr('literal', '1', ded=Ch('l0d', [None, 'i32', 'Y'])), Opt(Ch('l0p', [False, True], fork=True), SimpleInstr('literal', '11', ded=Ch('l0d2', ['i32', None, 'Y']), tag='literal2'))
            v0 = Member('A', shape='unit', instrs=[la, lb] if sh['kind'] in ('FromOwned', 'OwnedInto') else [lb, la])
            v1 = Member('B', shape='unit', instrs=[SimpleInstr('pattern', '2..=5', ded=Ch('p1d', [None, 'i32'])), MapInstr(Ch('v1n', ['into', 'owned_into', 'ref_into', 'map', 'from']), action=Ch('v1a', [None, '7']), tag='v1')])
            v2 = Member('C', shape='unit', instrs=[GhostInstr(Ch('v2g', ['ghost', 'ghost_owned', 'ghost_ref']), ded=Ch('v2gd', [None, 'i32']), action=Ch('v2a', [None, '{ __gv(@) }']), tag='gv')])
            return Spec('enum', traits=[t1, t2], members=[v0, v1, v2], tys=('i32', 'Y'))
        t1 = TraitInstr(tn, 'X', err=err, default_case=Ch('td', [None, '=> __dflt(@)']), tag='t1')
        t2 = TraitInstr(tn, 'Y', err=err, tag='t2')
        gi = GhostsInstr(Ch('gsn', ['ghosts', 'ghosts_owned', 'ghosts_ref']), ded=Ch('gsd', [None, 'X', 'Y']), data=[GhostData(('n', 'Gone'), '__gone(@)', tag='gone'), GhostData(('d', 'Gtwo { .. }'), '__gtwo(@)', tag='gtwo')])
        v0 = Member('A', shape='named', fields=[Member('x')], instrs=[GhostsInstr(Ch('vgn', ['ghosts', 'ghosts_owned', 'ghosts_ref']), ded=Ch('vgd', [None, 'X', 'Y']), data=[GhostData(('n', 'gf'), '__gf()', tag='gf')])])
        v1 = Member('B', shape='unit', instrs=[GhostInstr(Ch('v1g', ['ghost', 'ghost_owned', 'ghost_ref']), ded=Ch('v1gd', [None, 'X']), action=Ch('v1a', [None, '{ __gv(@) }']), tag='gv')])
        return Spec('enum', traits=[t1, t2], members=[v0, v1], type_instrs=[gi])
    return make


# ------------------------------------------------------------------------------------------ C04: trait instruction sets
C04_TYS = [('X', None), ('m::X', None), ('X', [('ty', 'T')]), (('tuple', 'i32, i64'), None)]
C04_ERRS = ['Er', 'm::Er']


def c04_shards(tier, seed):
    out = []
    for item in ('struct', 'enum'):
        for k in ((1, 2) if tier == 'quick' else (1, 2, 3)):
            for order in ((0,) if k == 1 else (0, 1)):
                for tyform in range(len(C04_TYS)):
                    if tier == 'quick' and ((tyform + k + order + (item == 'enum') + seed) % 2 or (item == 'enum' and k == 2 and order)):
                        continue
                    if item == 'enum' and tyform == 3:
                        continue
                    out.append({'family': 'c04', 'item': item, 'k': k, 'order': order, 'tyform': tyform, 'errform': (tyform + k) % len(C04_ERRS), 'rot': seed + tyform + order})
    return out


def make_c04(sh):
    item, k, order, tyform, errform = sh['item'], sh['k'], sh['order'], sh['tyform'], sh['errform']

    def make():
        ty, gen = C04_TYS[tyform]
        err = C04_ERRS[errform]
        others = [('Y', None), ('Z', None)]
        tis = [TraitInstr(Ch('tn0', TRAIT_NAMES), ty, err=Ch('te0', [None, err]), tag='t0', ty_generics=TyGenerics(gen) if gen else None)]
        for j in range(1, k):
            # three symbolic names would be 24^3 name triples per shard (> 1 h): with k = 3 the 2nd / 3rd instruction range over a rotated third of the names
            dom = TRAIT_NAMES if k < 3 else [n for i, n in enumerate(TRAIT_NAMES) if (i + j + sh.get('rot', 0)) % 3 == 0]
            tis.append(TraitInstr(Ch('tn%d' % j, dom), others[j - 1][0], err=Ch('te%d' % j, [None, err]), tag='t%d' % j))
        if order:
            tis = tis[::-1]
        tys = tuple(sorted({t.ty if isinstance(t.ty, str) else '(tuple)' for t in tis}))
        if item == 'struct':
            return Spec('struct', shape='named', traits=tis, members=[Member('a')], tys=tys)
        return Spec('enum', traits=tis, members=[Member('A', shape='unit')], tys=tys)
    return make


# ------------------------------------------------------------------------------------------ misuse (C15 / C19): rule violations injected into a valid base
BASIC12 = [BASIC_NAME[(k, f)] for f in (False, True) for k in KINDS]


class Opt:
    """an instruction that is present iff a forked boolean choice says so"""

    def __init__(self, ch, instr):
        self.ch, self.instr = ch, instr

    def inner(self, c):
        return self.instr if c else None


def misuse_shards(tier, seed):
    out = []
    for shape in ('named', 'tuple'):
        for variant in ('A1x', 'A1y', 'A2', 'A3', 'B1', 'B2', 'B3', 'C1', 'C2', 'C3'):
            if tier == 'quick' and shape == 'tuple' and variant not in ('C3', 'A2', 'A3', 'B1'):
                continue
            out.append({'family': 'misuse', 'item': 'struct', 'shape': shape, 'variant': variant})
    for variant in ('EA1', 'EA2', 'EB'):
        out.append({'family': 'misuse', 'item': 'enum', 'shape': 'enum', 'variant': variant})
    return out


def make_misuse(sh):
    item, shape, variant = sh['item'], sh['shape'], sh['variant']
    yes = lambda n: Ch(n, [False, True], fork=True)

    def make():
        nm = (lambda s: s) if shape == 'named' else (lambda s: None)
        tX = lambda: TraitInstr('map', 'X', tag='t1')
        tY = lambda: TraitInstr('map', 'Y', tag='t2')
        if variant in ('A1x', 'A1y'):
            # duplicates for one counterpart; missing / superfluous error type
            t1 = TraitInstr(Ch('t1n', BASIC12), 'X', err=Ch('t1e', [None, 'Er']), tag='t1')
            t2 = TraitInstr(Ch('t2n', ['from_owned', 'map', 'try_from_owned', 'ref_into_existing', 'try_into']), 'X' if variant == 'A1x' else 'Y', err=Ch('t2e', [None, 'Er']), tag='t2')
            return Spec('struct', shape=shape, traits=[t1, t2], members=[Member(nm('a'))], tys=('X', 'Y', 'Z'))
        if variant == 'A2':
            # member instructions dedicated to an unknown counterpart; ghost without default where one is needed
            t1 = TraitInstr(Ch('t1n', BASIC12 + ['map', 'try_from']), 'X', err=Ch('t1e', ['Er', None]), update=Ch('t1u', [None, '__u(@)']), tag='t1')
            m0 = Member(nm('a'), instrs=[MapInstr(Ch('m0n', ['map', 'owned_into', 'try_map']), ded=Ch('m0d', [None, 'X', 'Z']), member=('n', 'zz'), tag='e')])
            m1 = Member(nm('b'), instrs=[GhostInstr(Ch('g1n', ['ghost', 'ghost_owned']), ded=Ch('g1d', [None, 'X', 'Y', 'Z']), action=Ch('g1a', [None, '__g(@)']), tag='g')])
            return Spec('struct', shape=shape, traits=[t1, tY()], members=[m0, m1], tys=('X', 'Y', 'Z'))
        if variant == 'A3':
            # several ghost instructions on one member: each is subject to the default-value rule, whatever stands in front of it
            t1 = TraitInstr(Ch('t1n', ['map', 'from_owned', 'owned_into']), 'X', tag='t1')
            m1 = Member(nm('b'), instrs=[GhostInstr(Ch('g1n', ['ghost', 'ghost_owned']), ded=Ch('g1d', ['X', None]), action=Ch('g1a', ['__g(@)', None]), tag='g'),
                                         GhostInstr(Ch('g2n', ['ghost', 'ghost_ref']), ded='Y', action=Ch('g2a', [None, '__g2(@)']), tag='g2'),
                                         Opt(yes('g3p'), GhostInstr('ghost', ded='Z', action=Ch('g3a', [None, '__g3(@)']), tag='g3'))])
            return Spec('struct', shape=shape, traits=[t1, tY()], members=[Member(nm('a')), m1], tys=('X', 'Y', 'Z'))
        if variant == 'B1':
            g = lambda k: ('n', 'g%s' % k) if shape == 'named' else ('i', 5 + k)
            g1 = GhostsInstr(Ch('gs1n', ['ghosts', 'ghosts_owned', 'ghosts_ref']), ded=Ch('gs1d', [None, 'X', 'Z']), data=[GhostData(g(0), '__gx(@)', tag='gx')])
            g2 = Opt(yes('gs2p'), GhostsInstr(Ch('gs2n', ['ghosts', 'ghosts_owned', 'ghosts_ref']), ded=Ch('gs2d', [None, 'X', 'Y']), data=[GhostData(g(1), '__gy(@)', tag='gy')]))
            return Spec('struct', shape=shape, traits=[TraitInstr(Ch('t1n', ['map', 'into', 'from']), 'X', tag='t1'), tY()], members=[Member(nm('a'))], type_instrs=[g1, g2], tys=('X', 'Y', 'Z'))
        if variant == 'B2':
            w1 = WhereInstr('T: Clone', ded=Ch('w1d', [None, 'X', 'Y', 'Z']), tag='w1')
            w2 = Opt(yes('w2p'), WhereInstr('T: Copy', ded=Ch('w2d', [None, 'X', 'Y']), tag='w2'))
            w3 = Opt(yes('w3p'), WhereInstr('T: Eq', ded=Ch('w3d', [None, 'Y']), tag='w3'))
            return Spec('struct', shape=shape, traits=[tX(), tY()], members=[Member(nm('a'))], type_instrs=[w1, w2, w3], tys=('X', 'Y', 'Z'))
        if variant == 'B3':
            t1 = TraitInstr(Ch('t1n', ['map', 'from', 'into', 'into_existing']), 'X', tag='t1')
            cp1 = Opt(yes('cp1p'), ChildParents([([('n', 'c')], 'C', 'Unspecified')], ded=Ch('cp1d', [None, 'X', 'Z'])))
            cp2 = Opt(yes('cp2p'), ChildParents([([('n', 'c')], 'C', 'Unspecified'), ([('n', 'c'), ('n', 'd')], 'D', 'Unspecified')] + [([('n', 'c')], 'C2', 'Unspecified')], ded=Ch('cp2d', [None, 'X'])))
            m0 = Member(nm('a'), instrs=[Opt(yes('chp'), ChildInstr([('n', 'c'), ('n', 'd')], ded=Ch('chd', [None, 'X', 'Y', 'Z'])))])
            return Spec('struct', shape=shape, traits=[t1, tY()], members=[m0, Member(nm('b'))], type_instrs=[cp1, cp2], tys=('X', 'Y', 'Z'))
        if variant == 'C1':
            m0 = Member(nm('a'), instrs=[Opt(yes('litp'), SimpleInstr('literal', '1')), Opt(yes('patp'), SimpleInstr('pattern', '_')), Opt(yes('thp'), SimpleInstr('type_hint', 'Struct')),
                                         Opt(yes('fgp'), GhostsInstr(Ch('fgn', ['ghosts', 'ghosts_owned', 'ghosts_ref']), data=[GhostData(('n', 'q'), '1', tag='fq')])),
                                         Opt(yes('lit2p'), SimpleInstr('literal', '2', tag='literal2'))])
            return Spec('struct', shape=shape, traits=[tX()], members=[m0, Member(nm('b'), repeat=None)], tys=('X', 'Y', 'Z'))
        if variant == 'C2':
            m1 = Member(nm('b'), ty='P', instrs=[Opt(yes('p1p'), ParentInstr(ded=Ch('p1d', [None, 'X', 'Z']))), Opt(yes('p2p'), ParentInstr(ded=Ch('p2d', [None, 'X', 'Y']))),
                                                 Opt(yes('p3p'), ParentInstr(ded=Ch('p3d', [None, 'X']), fields=[PField(('i', 0), tag='pf0'), PField(('n', 'pn'), sub_path=[(('n', 'sub'), None)], tag='pf1')]))])
            return Spec('struct', shape=shape, traits=[TraitInstr(Ch('t1n', ['map', 'from', 'into']), 'X', hint=Ch('t1h', ['Unspecified', 'Struct']), tag='t1'), tY()], members=[Member(nm('a')), m1], tys=('X', 'Y', 'Z'))
        if variant == 'C3':
            # tuple <-> named without member names; permeating repeat on a struct field
            t1 = TraitInstr(Ch('t1n', ['map', 'from', 'into', 'into_existing', 'try_into']), 'X', err=Ch('t1e', ['Er', None]), hint=Ch('t1h', ['Unspecified', 'Struct', 'Tuple']), quick_return=Ch('t1r', [None, '__r(@)']), tag='t1')
            m2 = Member(nm('c'), instrs=[Opt(yes('m2p'), MapInstr(Ch('m2n', ['map', 'from', 'into', 'try_into']), member=Ch('m2m', [None, ('n', 'zz')]), action=Ch('m2a', [None, '__e(~)']), tag='e'))],
                        repeat=None)
            m3 = Member(nm('d'), instrs=[Opt(yes('m3g'), GhostInstr('ghost', action='__g()', tag='g3'))], repeat=None)
            return Spec('struct', shape=shape, traits=[t1], members=[m2, m3], tys=('X', 'Y', 'Z'))
        if variant == 'EA1':
            v0 = Member('A', shape='unit', instrs=[Opt(yes('l1p'), SimpleInstr('literal', '1', ded=Ch('l1d', [None, 'X', 'Z']))), Opt(yes('l2p'), SimpleInstr('literal', '2', ded=Ch('l2d', [None, 'X', 'Y']), tag='literal2')),
                                                   Opt(yes('vpp'), ParentInstr()), Opt(yes('q1p'), SimpleInstr('pattern', '_', ded=Ch('q1d', [None, 'X', 'Z']))), Opt(yes('q2p'), SimpleInstr('pattern', '3', ded=Ch('q2d', [None, 'X']), tag='pattern2'))])
            return Spec('enum', traits=[TraitInstr('from', 'X', tag='t1'), TraitInstr('from', 'Y', tag='t2')], members=[v0, Member('B', shape='unit')], tys=('X', 'Y', 'Z'))
        if variant == 'EA2':
            t1 = TraitInstr(Ch('t1n', ['map', 'from', 'into', 'try_map']), 'X', err=Ch('t1e', [None, 'Er']), tag='t1')
            v1 = Member('B', shape='tuple', fields=[Member(None, instrs=[Opt(yes('fmp'), MapInstr(Ch('fmn', ['map', 'from', 'into']), member=Ch('fmm', [None, ('n', 'fz')]), action=Ch('fma', [None, '__f(~)']), tag='f'))])],
                        instrs=[Opt(yes('h1p'), SimpleInstr('type_hint', Ch('h1h', ['Struct', 'Tuple']), ded=Ch('h1d', [None, 'X', 'Z']))), Opt(yes('h2p'), SimpleInstr('type_hint', 'Struct', ded=Ch('h2d', [None, 'X'])))])
            return Spec('enum', traits=[t1, tY()], members=[Member('A', shape='unit'), v1], tys=('X', 'Y', 'Z'))
        v0 = Member('A', shape='unit', instrs=[MapInstr('map', ded=Ch('vmd', [None, 'X', 'Z']), member=('n', 'Az'), tag='vm'), GhostInstr(Ch('vgn', ['ghost', 'ghost_ref']), ded=Ch('vgd', [None, 'Y', 'Z']), action='__g()', tag='vg')])
        g1 = GhostsInstr('ghosts', ded=Ch('gs1d', [None, 'X', 'Z']), data=[GhostData(('n', 'Gx'), '__gx(@)', tag='gx')])
        g2 = Opt(yes('gs2p'), GhostsInstr(Ch('gs2n', ['ghosts', 'ghosts_ref']), ded=Ch('gs2d', [None, 'X']), data=[GhostData(('n', 'Gy'), '__gy(@)', tag='gy')]))
        return Spec('enum', traits=[TraitInstr(Ch('t1n', ['from', 'into', 'map']), 'X', tag='t1'), tY()], members=[v0, Member('B', shape='unit')], type_instrs=[g1, g2], tys=('X', 'Y', 'Z'))
    return make


# ------------------------------------------------------------------------------------------ C07: all flavours of one mapping in one input
def c07_shards(tier, seed):
    out = []
    for shape in ('named', 'tuple'):
        for hint in ('Unspecified', 'Struct', 'Tuple'):
            for variant in ('map', 'ghost'):
                if tier == 'quick' and (HINTS4.index(hint) + (shape == 'tuple') + (variant == 'ghost') + seed) % 2:
                    continue
                out.append({'family': 'c07', 'shape': shape, 'hint': hint, 'variant': variant})
    if not any(o['shape'] == 'named' and o['hint'] == 'Tuple' and o['variant'] == 'ghost' for o in out):
        out.append({'family': 'c07', 'shape': 'named', 'hint': 'Tuple', 'variant': 'ghost'})
    out.append({'family': 'c07', 'shape': 'named', 'hint': 'Unspecified', 'variant': 'parent'})
    out.append({'family': 'c07', 'shape': 'named', 'hint': 'Struct', 'variant': 'parent'})
    out.append({'family': 'c07', 'shape': 'named', 'hint': 'Unspecified', 'variant': 'bareparent'})
    out.append({'family': 'c07', 'shape': 'named', 'hint': 'Unspecified', 'variant': 'enum'})
    return out


def make_c07(sh):
    shape, hint, variant = sh['shape'], sh['hint'], sh['variant']

    def make():
        nm = (lambda s: s) if shape == 'named' else (lambda s: None)
        traits = [TraitInstr('map', 'X', hint=hint, tag='t1'), TraitInstr('try_map', 'X', hint=hint, err='Er', tag='t2'),
                  TraitInstr('into_existing', 'X', hint=hint, tag='t3'), TraitInstr('try_into_existing', 'X', hint=hint, err='Er', tag='t4')]
        ren = ('n', 'zz') if (hint == 'Struct' or (hint == 'Unspecified' and shape == 'named')) else ('i', 0)
        if variant == 'enum':
            # an enum under map + try_map (eight flavours; into_existing on enums is a known C17 finding): variant-level rename / expression
            # with a symbolic instruction name, a ghost variant, a tuple payload with a renamed field, a struct payload
            etraits = [TraitInstr('map', 'X', tag='t1'), TraitInstr('try_map', 'X', err='Er', tag='t2')]
            v0 = Member('A', shape='unit', instrs=[MapInstr(Ch('v0n', ['map', 'from', 'owned_into', 'ref_into', 'try_map', 'from_ref']), member=('n', 'Az'), tag='e0')])
            v1 = Member('B', shape='tuple', fields=[Member(None, instrs=[MapInstr('map', member=('i', 1), tag='f0')]), Member(None, instrs=[MapInstr('map', member=('i', 0), tag='f1')])])
            v2 = Member('C', shape='named', fields=[Member('x', instrs=[MapInstr(Ch('f2n', ['map', 'ref_into', 'try_from']), member=('n', 'xx'), action=Ch('f2a', [None, '__f2(~)']), tag='f2')]), Member('y')])
            v3 = Member('D', shape='unit', instrs=[GhostInstr(Ch('v3g', ['ghost', 'ghost_owned', 'ghost_ref']), action='{ __gv(@) }', tag='gv')])
            return Spec('enum', traits=etraits, members=[v0, v1, v2, v3])
        if variant == 'bareparent':
            # bare #[parent]: produced by (try_)into() from the whole counterpart, poured with (try_)into_existing into it
            return Spec('struct', shape=shape, traits=traits, members=[Member(nm('b'), instrs=[MapInstr(Ch('m1n', ['map', 'into', 'owned_into']), member=Ch('m1m', [None, ('n', 'yy')]), tag='e1')]),
                                                                       Member(nm('par'), ty='ParT', instrs=[ParentInstr()])])
        if variant == 'parent':
            # parameterised parent whose child fields carry separate owned / by-ref instructions
            p = ParentInstr(fields=[PField(('n', 'pa'), attrs=[(Ch('pa1', ['owned_into', 'map_owned', 'into']).dom[0] if False else 'owned_into', ('n', 'qa'), '__o(~)'), ('ref_into', ('n', 'qb'), '__r(~)'), ('from', ('n', 'qc'), None)], tag='pa'),
                                    PField(('n', 'pb'), attrs=[('map', ('n', 'qd'), None)], tag='pb'), PField(('n', 'pc'), tag='pc')])
            return Spec('struct', shape=shape, traits=traits, members=[Member(nm('par'), ty='ParT', instrs=[p]), Member(nm('b'), instrs=[MapInstr(Ch('m1n', ['map', 'into', 'owned_into']), member=('n', 'yy'), tag='e1')])])
        if variant == 'map':
            m0 = Member(nm('a'), instrs=[MapInstr(Ch('m0n', MEMBER_MAP_NAMES), member=Ch('m0m', [None, ren]) if shape == 'named' or hint != 'Struct' else ren, action=Ch('m0a', [None, '__e0(~, @)']), tag='e0'),
                                         Opt(Ch('m0p', [False, True], fork=True), MapInstr(Ch('m0n2', ['map', 'owned_into', 'ref_into_existing', 'try_from']), member=ren, action='__e1(~)', tag='e1'))])
            m1 = Member(nm('b'), instrs=[MapInstr('map', member=('n', 'yy') if ren[0] == 'n' else ('i', 1), tag='e2')] if (shape == 'tuple' and hint == 'Struct') else [])
            m2 = Member(nm('c'), instrs=[MapInstr('map', member=('n', 'xx'), tag='e3')] if (shape == 'tuple' and hint == 'Struct') else [])
            return Spec('struct', shape=shape, traits=traits, members=[m0, m1, m2])
        m0 = Member(nm('a'), instrs=[MapInstr('map', member=ren, tag='e0')] if (shape == 'tuple' and hint == 'Struct') else [])
        m1 = Member(nm('b'), instrs=[GhostInstr(Ch('g1n', ['ghost', 'ghost_owned', 'ghost_ref']), action=Ch('g1a', ['__g1(@)', None]), tag='g1')] + ([MapInstr('map', member=('n', 'yy'), tag='e2')] if (shape == 'tuple' and hint == 'Struct') else []))
        m2i = MapInstr(Ch('m2n', ['map', 'into', 'from', 'try_into', 'owned_into_existing']), member=(('n', 'xx') if ren[0] == 'n' else ('i', 2)), action=Ch('m2a', [None, '__e2(~)']), tag='e2')
        m2 = Member(nm('c'), instrs=[Opt(Ch('m2p', [True, False], fork=True), m2i) if (shape == 'named' and hint == 'Tuple') else m2i])
        gi = GhostsInstr(Ch('gsn', ['ghosts', 'ghosts_owned', 'ghosts_ref']), data=[GhostData(('n', 'gx') if ren[0] == 'n' else ('i', 3), '__gx(@)', tag='gx')])
        return Spec('struct', shape=shape, traits=traits, members=[m0, m1, m2], type_instrs=[gi])
    return make


FAMILIES = {'c07': make_c07, 'misuse': make_misuse, 'c04': make_c04, 'flat': make_flat, 'params': make_params, 'ghosts': make_ghosts, 'child': make_child, 'parent': make_parent, 'enum': make_enum}
SHARDERS = {'c07': c07_shards, 'misuse': misuse_shards, 'c04': c04_shards, 'flat': flat_shards, 'params': params_shards, 'ghosts': ghosts_shards, 'child': child_shards, 'parent': parent_shards, 'enum': enum_shards}


def make(sh):
    return FAMILIES[sh['family']](sh)


def all_shards(tier, seed, families=None):
    out = []
    for f in (families or [x for x in FAMILIES if x not in ('c04', 'misuse', 'c07')]):
        out.extend(SHARDERS[f](tier, seed))
    return out
