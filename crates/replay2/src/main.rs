//! o2o-replay2 (syn 2 back-end): runs the *real* `o2o_impl::expand::derive` on derive inputs given as text,
//! one per stdin line, and reports tokens / diagnostics / panic, plus a `syn::parse_file`
//! verdict and the impl items of the output.  Used by every check to validate symbolic paths
//! against the native build and to confirm counterexamples before they are reported.
use std::io::{self, BufRead, Write};
use std::panic;

use quote::ToTokens;

fn esc(s: &str) -> String {
    s.replace('\\', "\\\\").replace('\n', "\\n").replace('\t', "\\t")
}

fn main() {
    panic::set_hook(Box::new(|_| {}));
    let stdin = io::stdin();
    let stdout = io::stdout();
    let mut out = stdout.lock();
    for line in stdin.lock().lines() {
        let line = match line { Ok(l) => l, Err(_) => break };
        let (id, text) = match line.split_once('\t') { Some(x) => x, None => continue };
        writeln!(out, "BEGIN {}", id).unwrap();
        match syn::parse_str::<syn::DeriveInput>(text) {
            Err(e) => { writeln!(out, "STATUS input_parse_error\nMSG {}", esc(&e.to_string())).unwrap(); }
            Ok(di) => {
                let r = panic::catch_unwind(panic::AssertUnwindSafe(|| o2o_impl::expand::derive(&di)));
                match r {
                    Err(p) => {
                        let msg = if let Some(s) = p.downcast_ref::<&str>() { s.to_string() } else if let Some(s) = p.downcast_ref::<String>() { s.clone() } else { "<non-string panic>".into() };
                        writeln!(out, "STATUS panic\nMSG {}", esc(&msg)).unwrap();
                    }
                    Ok(Err(e)) => {
                        writeln!(out, "STATUS err").unwrap();
                        for m in e.into_iter() { writeln!(out, "ERR {}", esc(&m.to_string())).unwrap(); }
                    }
                    Ok(Ok(ts)) => {
                        writeln!(out, "STATUS ok\nOUT {}", esc(&ts.to_string())).unwrap();
                        match syn::parse2::<syn::File>(ts) {
                            Err(e) => writeln!(out, "PARSE fail {}", esc(&e.to_string())).unwrap(),
                            Ok(f) => {
                                writeln!(out, "PARSE ok {}", f.items.len()).unwrap();
                                for it in f.items {
                                    match it {
                                        syn::Item::Impl(im) => {
                                            let tr = im.trait_.as_ref().map(|t| t.1.to_token_stream().to_string()).unwrap_or_default();
                                            let fns: Vec<String> = im.items.iter().map(|i| match i {
                                                syn::ImplItem::Fn(m) => format!("fn:{}:{}", m.sig.ident, m.sig.to_token_stream()),
                                                syn::ImplItem::Type(t) => format!("type:{}:{}", t.ident, t.ty.to_token_stream()),
                                                _ => "other".to_string() }).collect();
                                            writeln!(out, "IMPL {}\t{}\t{}\t{}\t{}", esc(&tr), esc(&im.self_ty.to_token_stream().to_string()), esc(&im.generics.to_token_stream().to_string()), esc(&fns.join(" ;; ")), esc(&im.to_token_stream().to_string())).unwrap();
                                        }
                                        other => writeln!(out, "ITEM {}", esc(&other.to_token_stream().to_string())).unwrap(),
                                    }
                                }
                            }
                        }
                    }
                }
            }
        }
        writeln!(out, "END").unwrap();
        out.flush().unwrap();
    }
}
