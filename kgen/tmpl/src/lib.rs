#![allow(dead_code, unused)]
#[derive(o2o::o2o, PartialEq, Debug, Clone, Copy)]
#[map_owned(i32| _ => E::Z)]
enum E {
    #[literal(1)] A,
    #[pattern(2..=5)] #[into({2})] B,
    #[literal(9999)] Z,
}
#[cfg(kani)]
#[kani::proof]
fn h0() {
    let v: i32 = kani::any();
    let e: E = v.into();
    let want = if v == 1 { E::A } else if (2..=5).contains(&v) { E::B } else { E::Z };
    assert!(e == want);
    kani::cover!(e == E::B);
}
