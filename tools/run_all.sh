#!/bin/bash
# tools/run_all.sh [quick|thorough] : run every registered check on /repo's current tree, one line per check
cd /verif
tier="${1:-quick}"
for id in $(python3 -c "import json; print(' '.join(c['property_id'] for c in json.load(open('MANIFEST.json'))['checks']))"); do
  t0=$(date +%s)
  out=$(./check "$id" --tier "$tier" 2>&1); code=$?
  echo "$id exit=$code secs=$(( $(date +%s) - t0 )) :: $(echo "$out" | tail -1 | cut -c1-160)"
  if [ $code -ne 0 ]; then echo "$out" | grep -E 'VIOLATION|INCONCLUSIVE' | head -5 | cut -c1-300; fi
done
