#!/bin/bash
# tools/run_some.sh <tier> <id>... : run the named checks in order, one summary line each (used for background thorough runs)
cd "$(dirname "$0")/.."
tier="$1"; shift
for id in "$@"; do
  t0=$(date +%s)
  out=$(./check "$id" --tier "$tier" 2>&1); code=$?
  echo "$id exit=$code secs=$(( $(date +%s) - t0 )) :: $(echo "$out" | tail -1 | cut -c1-160)"
  if [ $code -ne 0 ]; then echo "$out" | grep -E 'VIOLATION|INCONCLUSIVE|site=' | head -8 | cut -c1-400; fi
done
