#!/usr/bin/env python3
"""Extract every `#[derive(.. o2o ..)]` item of the repository's own test-suite as one-line derive inputs."""
import re, sys, glob, os
REPO = os.environ.get('VERIF_REPO', '/repo')


def items_of(src):
    out = []
    for m in re.finditer(r'#\[derive\(([^)]*)\)\]', src):
        if 'o2o' not in m.group(1):
            continue
        i = m.end()
        # collect following attributes and the item
        depth = 0; j = i; n = len(src); seen_kw = False; body_open = None
        while j < n:
            c = src[j]
            if c in '([{':
                depth += 1
            elif c in ')]}':
                depth -= 1
                if depth == 0 and seen_kw and c in '})':
                    # struct S {..}  | struct S(..); | enum E {..}
                    k = j + 1
                    if c == ')':
                        mm = re.match(r'\s*;', src[k:])
                        if mm:
                            k += mm.end()
                    out.append(src[i:k]); break
            elif depth == 0 and re.match(r'(struct|enum)\b', src[j:]) and not seen_kw:
                seen_kw = True
                mm = re.match(r'(struct|enum)\s+\w+\s*;', src[j:])
                if mm:
                    out.append(src[i:j + mm.end()]); break
            j += 1
    res = []
    for t in out:
        t = re.sub(r'//[^\n]*', '', t)
        t = re.sub(r'#\[derive\([^)]*\)\]', '', t)
        t = re.sub(r'#\[(cfg|cfg_attr|allow|doc|test)[^\]]*\]', '', t)
        res.append(' '.join(t.split()))
    return res


if __name__ == '__main__':
    seen = set()
    for f in sorted(glob.glob(os.path.join(REPO, 'o2o-tests/tests/*.rs'))):
        for it in items_of(open(f).read()):
            if it not in seen:
                seen.add(it); print(it)
