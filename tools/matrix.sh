#!/bin/bash
# tools/matrix.sh <seeded-id> <check-id>... : apply a seeded patch to /repo, run the quick checks, undo.
# Prints one line per (mutant, check): exit code and the first VIOLATION / INCONCLUSIVE line.
set -u
cd /verif
m="$1"; shift
git -C /repo diff --quiet || { echo "/repo is dirty"; exit 9; }
git -C /repo apply "/verif/seeded/$m/patch.diff" || { echo "patch does not apply"; exit 9; }
rm -rf /var/tmp/evidence.bak && cp -r /verif/evidence /var/tmp/evidence.bak
trap 'git -C /repo checkout -- . ; rm -rf /verif/evidence; mv /var/tmp/evidence.bak /verif/evidence' EXIT
for c in "$@"; do
  out=$(./check "$c" --tier ${TIER:-quick} 2>&1); code=$?
  echo "== $m x $c -> exit $code :: $(echo "$out" | grep -m1 -E 'VIOLATION|INCONCLUSIVE' | cut -c1-200)"
  echo "$out" | grep -A1 -E '^VIOLATION' | grep 'site=' | head -3 | cut -c1-260
done
