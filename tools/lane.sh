#!/bin/bash
# tools/lane.sh <seeded-id> <check-id>... : like matrix.sh but without touching /repo or /verif/evidence — a scratch clone of
# /repo (with the seeded patch) and a scratch copy of /verif are made under /var/tmp, the checks run there (VERIF_REPO), and the
# lane is removed afterwards.  Usable while other checks are running against /repo.
set -u
m="$1"; shift
L=/var/tmp/lane-$m
rm -rf "$L"; mkdir -p "$L"
git clone -q /repo "$L/repo" || exit 9
cp /repo/Cargo.lock "$L/repo/" 2>/dev/null
git -C "$L/repo" apply "/verif/seeded/$m/patch.diff" || { echo "patch does not apply"; rm -rf "$L"; exit 9; }
rsync -a --exclude target --exclude scratch --exclude replays --exclude .git --exclude __pycache__ /verif/ "$L/verif/"
sed -i "s#/repo#$L/repo#" "$L/verif/crates/replay/Cargo.toml" "$L/verif/crates/replay2/Cargo.toml" "$L/verif/kgen/tmpl/Cargo.toml"
cd "$L/verif"
for c in "$@"; do
  out=$(VERIF_REPO="$L/repo" ./check "$c" --tier ${TIER:-quick} 2>&1); code=$?
  echo "== $m x $c -> exit $code :: $(echo "$out" | grep -m1 -E 'VIOLATION|INCONCLUSIVE' | cut -c1-200)"
  echo "$out" | grep -A1 -E '^VIOLATION' | grep 'site=' | head -3 | cut -c1-260
done
cd /; rm -rf "$L"
