"""Model of the slice of syn 1.x that o2o-impl's parse layer uses, over the abstract token model.

With it the crate's own `Parse` impls, `get_data_type_attrs`, `get_member_attrs`, `Struct/Enum::from_syn` and
`expand::derive` are executed from MIR on a derive input given as text (tokenised by tokens.tokenize), with selected
identifiers (instruction names) symbolic.  What is modelled — and therefore trusted — is syn's token-level
primitives only: ParseBuffer::{parse::<T> for token / Ident / Path / Member / Index / TokenStream / custom keyword,
peek, peek2, is_empty, fork, error}, parenthesized!/braced!/bracketed!, Punctuated::parse_*,
Attribute::parse_args_with, Path::{is_ident,get_ident}, Fields::iter, parse2.
"""
import re
import z3
from engine import Agg, EnumV, Ref, VecV, Cell, SymStr, Opq, Unsupported, Panic, clone_val
from mir import strip_generics, split_top
import models
from models import (some, none, ok, err, unit, IdentV, GenericsV, ErrV, EXACT, TRAIT, PREFIX, exact, trait, to_tokens, str_eq, ListIt, MEMBER, OPT, SliceIt)
from tokens import TS, TIdent, TPunct, TLit, TGroup, tokenize

SYN_TYPE_VARIANTS = ['Array', 'BareFn', 'Group', 'ImplTrait', 'Infer', 'Macro', 'Never', 'Paren', 'Path', 'Ptr', 'Reference', 'Slice', 'TraitObject', 'Tuple', 'Verbatim']
KEYWORDS = {'as', 'break', 'const', 'continue', 'crate', 'else', 'enum', 'extern', 'false', 'fn', 'for', 'if', 'impl', 'in', 'let', 'loop', 'match', 'mod', 'move',
            'mut', 'pub', 'ref', 'return', 'self', 'Self', 'static', 'struct', 'super', 'trait', 'true', 'type', 'unsafe', 'use', 'where', 'while', 'async', 'await',
            'dyn', 'abstract', 'become', 'box', 'do', 'final', 'macro', 'override', 'priv', 'typeof', 'unsized', 'virtual', 'yield', 'try', '_'}
PUNCT_TOKENS = {'Comma': ',', 'Colon': ':', 'Or': '|', 'Dot2': '..', 'DotDot': '..', 'PathSep': '::', 'Plus': '+', 'Not': '!', 'AndAnd': '&&', 'At': '@', 'Dot': '.', 'Tilde': '~', 'Colon2': '::', 'Lt': '<', 'Gt': '>', 'Eq': '=', 'Semi': ';',
                'Add': '+', 'Pound': '#', 'Bang': '!', 'FatArrow': '=>', 'Star': '*', 'And': '&', 'Question': '?'}
KW_TOKENS = {'Underscore': '_', 'Return': 'return', 'As': 'as', 'Struct': 'struct', 'Enum': 'enum', 'Const': 'const', 'Where': 'where', 'Mut': 'mut', 'SelfValue': 'self'}
GROUP_TOKENS = {'Paren': 'Parenthesis', 'Brace': 'Brace', 'Bracket': 'Bracket'}


class PB:
    """syn::parse::ParseBuffer over a token list"""

    def __init__(self, items, pos=0, scope='call_site'):
        self.items, self.pos, self.scope = items, pos, scope

    def clone(self):
        return PB(self.items, self.pos, self.scope)

    def peekn(self, n=0):
        i = self.pos + n
        return self.items[i] if i < len(self.items) else None

    def err(self, msg):
        return ErrV([(Opq('Span', 'parse@%d' % self.pos), msg)], parse=True)


def install(engine):
    engine.enums['syn::Type'] = SYN_TYPE_VARIANTS
    engine.gstack = []


# --------------------------------------------------------------------------- token matching

def punct_seq(pb, s):
    """does the buffer start with the punctuation sequence s (e.g. '..')?"""
    for i, ch in enumerate(s):
        t = pb.peekn(i)
        if not (isinstance(t, TPunct) and t.ch == ch):
            return False
        if i < len(s) - 1 and t.joint is not True:
            return False
    return True


def ident_name(t):
    return t.name if isinstance(t, TIdent) else None


def is_int_lit(t):
    return isinstance(t, TLit) and re.fullmatch(r'\d+', t.text) is not None


def peek_type(e, pb, ty, n=0):
    """syn's Peek for the token types the crate asks about"""
    sub = PB(pb.items, pb.pos + n)
    t = sub.peekn()
    short = strip_generics(ty).split('::')[-1]
    if ty.startswith('kw::') or '::kw::' in ty:
        nm = ident_name(t)
        return nm is not None and e.branch(str_eq(nm, short))
    if short in GROUP_TOKENS:
        return isinstance(t, TGroup) and t.delim == GROUP_TOKENS[short]
    if short == 'Ident':
        nm = ident_name(t)
        if nm is None:
            return False
        if isinstance(nm, SymStr):
            return True
        return nm not in KEYWORDS
    if short in PUNCT_TOKENS:
        return punct_seq(sub, PUNCT_TOKENS[short])
    if short in KW_TOKENS:
        nm = ident_name(t)
        return nm is not None and e.branch(str_eq(nm, KW_TOKENS[short]))
    if short == 'LitInt':
        if isinstance(t, TPunct) and t.ch == '-':          # syn's LitInt peeks through a leading minus sign
            t = sub.peekn(1)
        return isinstance(t, TLit) and re.match(r'\d', t.text) is not None and not re.search(r'\.\d|e[+-]?\d', t.text)
    if short == 'Lit':
        return isinstance(t, TLit)
    if short == 'Lifetime':
        return isinstance(t, TPunct) and t.ch == "'"
    raise Unsupported('peek of token type ' + ty)


def mk_path(segs, leading=False):
    """segs: [(IdentV, None | AngleArgs value)]"""
    items = []
    for idn, args in segs:
        pa = EnumV('syn::PathArguments', 0, {}) if args is None else EnumV('syn::PathArguments', 1, {1: [args]})
        items.append(Agg('syn::PathSegment', [idn, pa]))
    return Agg('syn::Path', [some(Opq('Colon2', 0)) if leading else none(), VecV(items)])


class RawArgs:
    """generic arguments kept as tokens (`<'a, T>`), with the split the crate looks at (lifetimes)"""

    def __init__(self, ts, colon2=False):
        self.ts = ts
        self.colon2 = colon2
        self._args = None

    def clone(self):
        return self

    def args(self, e):
        if self._args is None:
            ga = e.enums['syn::GenericArgument']
            out, cur = [], []
            depth = 0
            for t in self.ts.items:
                if isinstance(t, TPunct) and t.ch == '<':
                    depth += 1
                if isinstance(t, TPunct) and t.ch == '>':
                    depth -= 1
                if isinstance(t, TPunct) and t.ch == ',' and depth == 0:
                    out.append(cur); cur = []
                else:
                    cur.append(t)
            if cur:
                out.append(cur)
            vals = []
            from spec import LifetimeV
            for a in out:
                if isinstance(a[0], TPunct) and a[0].ch == "'":
                    vals.append(EnumV('syn::GenericArgument', ga.index('Lifetime'), {ga.index('Lifetime'): [LifetimeV("'" + a[1].name)]}))
                else:
                    vals.append(EnumV('syn::GenericArgument', ga.index('Type'), {ga.index('Type'): [Opq('Type', 'targ', TS(a))]}))
            self._args = VecV(vals)
        return self._args

    def get_field(self, e, i):
        if i == 2:
            return self.args(e)
        raise Unsupported('AngleBracketedGenericArguments field %d' % i)

    def to_tokens(self, e, ts):
        if self.colon2:
            models.push_punct(ts, '::')
        models.push_punct(ts, '<')
        ts.items.extend(self.ts.items)
        models.push_punct(ts, '>')


def parse_path(e, pb):
    """syn::Path::parse (type style: `a::b<..>::c`)"""
    leading = False
    if punct_seq(pb, '::'):
        leading = True
        pb.pos += 2
    segs = []
    while True:
        t = pb.peekn()
        nm = ident_name(t)
        if nm is None or (isinstance(nm, str) and nm in KEYWORDS and nm not in ('self', 'Self', 'crate', 'super')):
            return None, pb.err('expected identifier')
        pb.pos += 1
        args = None
        if punct_seq(pb, '<') or (punct_seq(pb, '::') and isinstance(pb.peekn(2), TPunct) and pb.peekn(2).ch == '<'):
            c2 = False
            if punct_seq(pb, '::'):
                pb.pos += 2
                c2 = True
            depth, start = 0, pb.pos
            while pb.pos < len(pb.items):
                x = pb.items[pb.pos]
                if isinstance(x, TPunct) and x.ch == '<':
                    depth += 1
                elif isinstance(x, TPunct) and x.ch == '>':
                    depth -= 1
                    if depth == 0:
                        break
                pb.pos += 1
            if pb.pos >= len(pb.items):
                return None, pb.err('expected `>`')
            args = RawArgs(TS(pb.items[start + 1:pb.pos]), c2)
            pb.pos += 1
        segs.append((IdentV(nm, Opq('Span', 'id:%s' % (nm,)), t.origin if t.origin is not None else 'user'), args))
        if punct_seq(pb, '::') and isinstance(pb.peekn(2), TIdent):
            pb.pos += 2
            continue
        break
    return mk_path(segs, leading), None


def parse_as(e, pb, ty, gen_ctx=None):
    """ParseBuffer::parse::<T> -> (value, None) | (None, ErrV)"""
    ty = ty.strip()
    if ty in ('T', 'U') and e.gstack:
        ty = e.gstack[-1][0 if ty == 'T' else 1]
    bare = strip_generics(ty)
    short = bare.split('::')[-1]
    t = pb.peekn()
    if bare == 'proc_macro2::TokenStream':
        ts = TS(list(pb.items[pb.pos:]))
        pb.pos = len(pb.items)
        return ts, None
    if bare == 'proc_macro2::Ident':
        nm = ident_name(t)
        if nm is None or (isinstance(nm, str) and nm in KEYWORDS):
            return None, pb.err('expected identifier')
        pb.pos += 1
        return IdentV(nm, Opq('Span', 'id:%s' % (nm,)), t.origin if t.origin is not None else 'user'), None
    if bare.startswith('kw::'):
        nm = ident_name(t)
        if nm is not None and e.branch(str_eq(nm, short)):
            pb.pos += 1
            return Agg(bare, [Opq('Span', 'kw:' + short)]), None
        return None, pb.err('expected `%s`' % short)
    if bare.startswith('syn::token::'):
        if short in PUNCT_TOKENS:
            s = PUNCT_TOKENS[short]
            if punct_seq(pb, s):
                pb.pos += len(s)
                return Opq('Token', short), None
            return None, pb.err('expected `%s`' % s)
        if short in KW_TOKENS:
            nm = ident_name(t)
            if nm is not None and e.branch(str_eq(nm, KW_TOKENS[short])):
                pb.pos += 1
                return Opq('Token', short), None
            return None, pb.err('expected `%s`' % KW_TOKENS[short])
        raise Unsupported('parse of token ' + ty)
    if bare == 'syn::Path':
        return parse_path(e, pb)
    if bare == 'syn::Index':
        if is_int_lit(t):
            pb.pos += 1
            return Agg('syn::Index', [int(t.text), Opq('Span', 'idx:' + t.text)]), None
        if isinstance(t, TLit) and re.match(r'\d', t.text) and not re.search(r'\.\d|e[+-]?\d', t.text):
            pb.pos += 1
        return None, pb.err('expected unsuffixed integer')
    if bare == 'syn::Member':
        nm = ident_name(t)
        if nm is not None and not (isinstance(nm, str) and nm in KEYWORDS):
            pb.pos += 1
            return EnumV(MEMBER, 0, {0: [IdentV(nm, Opq('Span', 'id:%s' % (nm,)), t.origin if t.origin is not None else 'user')]}), None
        if is_int_lit(t):
            pb.pos += 1
            return EnumV(MEMBER, 1, {1: [Agg('syn::Index', [int(t.text), Opq('Span', 'idx:' + t.text)])]}), None
        if isinstance(t, TLit) and re.match(r'\d', t.text) and not re.search(r'\.\d|e[+-]?\d', t.text):
            pb.pos += 1          # syn parses the LitInt (consuming it) before rejecting its suffix; ParseBuffer does not rewind on error
            return None, pb.err('expected unsuffixed integer')
        return None, pb.err('expected identifier or integer')
    if bare == 'syn::WherePredicate':
        # tokens up to the next top-level comma
        start, depth = pb.pos, 0
        while pb.pos < len(pb.items):
            x = pb.items[pb.pos]
            if isinstance(x, TPunct) and x.ch == '<':
                depth += 1
            elif isinstance(x, TPunct) and x.ch == '>':
                depth -= 1
            elif isinstance(x, TPunct) and x.ch == ',' and depth == 0:
                break
            pb.pos += 1
        if pb.pos == start:
            return None, pb.err('expected where predicate')
        return Opq('WherePredicate', 'w%d' % start, TS(pb.items[start:pb.pos])), None
    if bare.startswith('syn::punctuated::Punctuated'):
        raise Unsupported('parse::<Punctuated> (use parse_terminated)')
    # a type of the crate with its own Parse impl
    key = (bare, 'Parse', 'parse')
    if key in e.trait_impls:
        r = e.call_fn(e.trait_impls[key][0][1], [Ref(Cell(pb))])
        if e.concretize(r.d, [0, 1]) == 0:
            return r.p[0][0], None
        return None, r.p[1][0]
    raise Unsupported('ParseBuffer::parse::<%s>' % ty)


def res(v, er):
    return err(er) if er is not None else ok(v)


def generic_of(info, idx=0):
    callee = info[-1]
    m = re.search(r'::(parse|peek|peek2|parse_terminated|parse_separated_nonempty|parse_terminated_with|parse2|parse_args_with|step)::<(.*)>$', callee)
    if not m:
        return None
    parts = split_top(m.group(2))
    return parts[idx] if idx < len(parts) else None


@exact('syn::parse::ParseBuffer::parse')
def m_pb_parse(e, args, info):
    pb = e.deref(args[0])
    v, er = parse_as(e, pb, generic_of(info))
    return res(v, er)


def peek_ty(info):
    g = generic_of(info)
    m = re.search(r'-> ([^{]*?)\s*\{', g)
    return m.group(1).strip() if m else g


@exact('syn::parse::ParseBuffer::peek')
def m_pb_peek(e, args, info):
    return peek_type(e, e.deref(args[0]), peek_ty(info), 0)


@exact('syn::parse::ParseBuffer::peek2')
def m_pb_peek2(e, args, info):
    pb = e.deref(args[0])
    if pb.peekn(0) is None:
        return False
    # peek2 looks past one token *tree*; a joint punct pair counts as separate tokens in syn's cursor too
    return peek_type(e, pb, peek_ty(info), 1)


@exact('syn::parse::ParseBuffer::is_empty')
def m_pb_is_empty(e, args, info):
    pb = e.deref(args[0])
    return pb.pos >= len(pb.items)


@exact('syn::parse::ParseBuffer::fork')
def m_pb_fork(e, args, info):
    return e.deref(args[0]).clone()


@exact('syn::parse::ParseBuffer::error')
def m_pb_error(e, args, info):
    return e.deref(args[0]).err(models.display(e, args[1]))


def _group(e, args, delim, tyname):
    pb = e.deref(args[0])
    t = pb.peekn()
    if isinstance(t, TGroup) and t.delim == delim:
        pb.pos += 1
        return ok(Agg(tyname, [Opq('Token', delim), PB(list(t.ts.items), 0)]))
    return err(pb.err('expected %s' % {'Parenthesis': 'parentheses', 'Brace': 'curly braces', 'Bracket': 'square brackets'}[delim]))


@exact('syn::__private::parse_parens')
def m_parse_parens(e, args, info):
    return _group(e, args, 'Parenthesis', 'syn::group::Parens')


@exact('syn::__private::parse_braces')
def m_parse_braces(e, args, info):
    return _group(e, args, 'Brace', 'syn::group::Braces')


@exact('syn::__private::parse_brackets')
def m_parse_brackets(e, args, info):
    return _group(e, args, 'Bracket', 'syn::group::Brackets')


def _punctuated(e, pb, elem, sep_ty, terminated, nonempty):
    items = []
    sep = PUNCT_TOKENS[strip_generics(sep_ty).split('::')[-1]]
    while True:
        if pb.pos >= len(pb.items):
            if nonempty and not items:
                v, er = elem(pb)
                return None, er
            break
        v, er = elem(pb)
        if er is not None:
            return None, er
        items.append(v)
        if pb.pos >= len(pb.items):
            break
        if punct_seq(pb, sep):
            if not terminated:
                # parse_separated_nonempty: stop before a trailing separator that is not followed by an element?  syn consumes
                # the separator only if it is there, then requires another element
                pb.pos += len(sep)
                continue
            pb.pos += len(sep)
            continue
        if terminated:
            return None, pb.err('expected `%s`' % sep)
        break
    return VecV(items), None


def _punct_generics(info):
    callee = info[-1]
    m = re.search(r'Punctuated::<(.*)>::parse_', callee)
    parts = split_top(m.group(1))
    return parts[0], parts[1]


@exact('syn::punctuated::Punctuated::parse_terminated')
def m_punct_parse_terminated(e, args, info):
    pb = e.deref(args[0])
    ety, sty = _punct_generics(info)
    v, er = _punctuated(e, pb, lambda p: parse_as(e, p, ety), sty, True, False)
    return res(v, er)


@exact('syn::punctuated::Punctuated::parse_separated_nonempty')
def m_punct_parse_sep(e, args, info):
    pb = e.deref(args[0])
    ety, sty = _punct_generics(info)
    # syn: parse one element, then while the separator follows: consume it and parse another element
    items = []
    v, er = parse_as(e, pb, ety)
    if er is not None:
        return err(er)
    items.append(v)
    sep = PUNCT_TOKENS[strip_generics(sty).split('::')[-1]]
    while punct_seq(pb, sep):
        pb.pos += len(sep)
        v, er = parse_as(e, pb, ety)
        if er is not None:
            return err(er)
        items.append(v)
    return ok(VecV(items))


def _closure_elem(e, clo):
    def f(pb):
        r = e.call_closure(clo, [Ref(Cell(pb))])
        if e.concretize(r.d, [0, 1]) == 0:
            return r.p[0][0], None
        return None, r.p[1][0]
    return f


@exact('syn::punctuated::Punctuated::parse_terminated_with')
def m_punct_parse_terminated_with(e, args, info):
    pb = e.deref(args[0])
    ety, sty = _punct_generics(info)
    v, er = _punctuated(e, pb, _closure_elem(e, args[1]), sty, True, False)
    return res(v, er)


@exact('syn::parse::ParseBuffer::parse_terminated')
def m_pb_parse_terminated(e, args, info):
    pb = e.deref(args[0])
    g = generic_of(info, 1) or 'syn::token::Comma'
    if g.startswith('fn('):
        # syn 2: parse_terminated(parser, Token![,]) — the separator is passed as the token's marker fn `fn(TokenMarker) -> Token`
        g = re.search(r'-> (syn::token::\w+)', g).group(1)
    v, er = _punctuated(e, pb, _closure_elem(e, args[1]), g, True, False)
    return res(v, er)


@exact('syn::parse2')
def m_parse2(e, args, info):
    if getattr(e, 'stub_parse2', False):
        return ok(Opq('parsed', generic_of(info) or ''))
    ts = args[0]
    pb = PB(list(ts.items), 0)
    v, er = parse_as(e, pb, generic_of(info))
    if er is not None:
        return err(er)
    if pb.pos < len(pb.items):
        return err(pb.err('unexpected token'))
    return ok(v)


@exact('syn::Attribute::parse_args_with')
def m_parse_args_with(e, args, info):
    attr = e.deref(args[0])
    if e.syn == 2:
        # syn 2: Meta::Path / Meta::NameValue are rejected, Meta::List parses its tokens whatever the delimiter
        meta = attr.f[3]
        if meta.d != 1:
            return err(ErrV([(Opq('Span', 'attr'), 'expected attribute arguments in parentheses' if meta.d == 0 else 'expected parentheses')], parse=True))
        inner = meta.p[1][0].f[2]
    else:
        ts = attr.f[4]
        # syn 1: `enter_args` accepts one group in any delimiter (parenthesized! / bracketed! / braced!)
        if not ts.items or not isinstance(ts.items[0], TGroup) or ts.items[0].delim == 'None':
            return err(ErrV([(Opq('Span', 'attr'), 'expected attribute arguments in parentheses')], parse=True))
        if len(ts.items) != 1:
            return err(ErrV([(Opq('Span', 'attr'), 'unexpected token')], parse=True))
        inner = ts.items[0].ts
    pb = PB(list(inner.items), 0)
    r = e.call_closure(args[1], [Ref(Cell(pb))])
    if e.concretize(r.d, [0, 1]) == 1:
        return r
    if pb.pos < len(pb.items):
        return err(pb.err('unexpected token'))
    return r


@exact('syn::Meta::path')
def m_meta_path(e, args, info):
    meta = e.deref(args[0])
    pay = meta.p[meta.d][0]
    if meta.d == 0:
        return Ref(Cell(pay))
    return Ref(Cell(pay.f[0]))


@exact('syn::path::parsing::is_ident', 'syn::Path::is_ident')
def m_path_is_ident(e, args, info):
    p = e.deref(args[0])
    s = e.deref(args[1])
    segs = p.f[1].items
    if len(segs) != 1 or p.f[0].d != 0 or segs[0].f[1].d != 0:
        return False
    return str_eq(segs[0].f[0].name, s)


@exact('syn::path::parsing::get_ident', 'syn::Path::get_ident')
def m_path_get_ident(e, args, info):
    r = args[0]
    p = e.deref(r)
    segs = p.f[1].items
    if len(segs) != 1 or p.f[0].d != 0 or segs[0].f[1].d != 0:
        return none()
    return some(Ref(Cell(segs[0].f[0])))


@exact('syn::Fields::iter')
def m_fields_iter(e, args, info):
    r = args[0]
    f = e.deref(r)
    d = f.d
    if d == 2:
        return ListIt([])
    inner = f.p[d][0]
    pv = inner.f[1]
    c = Cell(pv)
    return SliceIt(c, (), len(pv.items))


def path_to_tokens(e, p, ts):
    if p.f[0].d == 1:
        models.push_punct(ts, '::')
    for i, seg in enumerate(p.f[1].items):
        if i:
            models.push_punct(ts, '::')
        ts.items.append(TIdent(seg.f[0].name, seg.f[0].origin))
        pa = seg.f[1]
        if pa.d == 1:
            to_tokens(e, pa.p[1][0], ts)


_orig_to_tokens = models.to_tokens


def to_tokens_ext(e, v, ts, ty=''):
    w = v
    while isinstance(w, Ref):
        w = e.load(w.cell, w.proj)
    if isinstance(w, Agg) and w.ty == 'syn::Path':
        return path_to_tokens(e, w, ts)
    if isinstance(w, EnumV) and w.ty == 'syn::Type':
        d = w.d
        x = w.p[d][0]
        if d == 8:
            return path_to_tokens(e, x.f[1], ts)
        return _orig_to_tokens(e, x, ts)
    return _orig_to_tokens(e, v, ts, ty)


models.to_tokens = to_tokens_ext


_orig_spanned = TRAIT[('Spanned', 'span')]


def m_spanned_ext(e, args, info):
    v = e.deref(args[0])
    if isinstance(v, Agg) and v.ty == 'syn::Path':
        segs = v.f[1].items
        return Opq('Span', 'path:%s' % (segs[0].f[0].name,))
    if isinstance(v, EnumV) and v.ty == 'syn::Type':
        return Opq('Span', 'type')
    if isinstance(v, Agg) and v.ty and v.ty.startswith('syn::'):
        return Opq('Span', v.ty)
    return _orig_spanned(e, args, info)


TRAIT[('Spanned', 'span')] = m_spanned_ext


@trait('IntoSpans', 'into_spans')
def m_into_spans(e, args, info):
    return args[0]


# --------------------------------------------------------------------------- text -> syn::DeriveInput

def _macro_delim(delim):
    i = ['Parenthesis', 'Brace', 'Bracket'].index(delim)
    return EnumV('syn::MacroDelimiter', i, {i: [Opq('Token', delim)]})


class InputRejected(Exception):
    """the parser library itself rejects the item before the derive runs (syn 2 parses attribute contents as `Meta`)"""


def _attr_val(e, pound_idx, grp, sym):
    """`#[path(args)]` -> syn::Attribute"""
    inner = grp.ts.items
    pb = PB(list(inner), 0)
    path, er = parse_path(e, pb)
    if er is not None:
        raise ValueError('attribute path')
    _symbolise(path, sym)
    rest = list(inner[pb.pos:])
    if e.syn == 2:
        # syn 2 `Meta::parse`: path, then a delimited group (List), `= expr` (NameValue) or nothing (Path); anything left over is an error
        if not rest:
            meta = EnumV('syn::Meta', 0, {0: [path]})
        elif isinstance(rest[0], TGroup) and rest[0].delim != 'None':
            if len(rest) != 1:
                raise InputRejected('unexpected token')
            meta = EnumV('syn::Meta', 1, {1: [Agg('syn::MetaList', [path, _macro_delim(rest[0].delim), rest[0].ts])]})
        elif isinstance(rest[0], TPunct) and rest[0].ch == '=' and len(rest) >= 2:
            meta = EnumV('syn::Meta', 2, {2: [Agg('syn::MetaNameValue', [path, Opq('Token', '='), Opq('Expr', 'value', TS(rest[1:]))])]})
        else:
            raise InputRejected('unexpected token')
        return Agg('syn::Attribute', [Opq('Token', '#'), Opq('AttrStyle', 'outer'), Opq('Token', '[]'), meta])
    return Agg('syn::Attribute', [Opq('Token', '#'), Opq('AttrStyle', 'outer'), Opq('Token', '[]'), path, TS(rest)])


def _symbolise(path, sym):
    for seg in path.f[1].items:
        nm = seg.f[0].name
        if isinstance(nm, str) and nm in sym:
            seg.f[0].name = sym[nm]


def _symbolise_ts(ts, sym):
    out = []
    for t in ts.items:
        if isinstance(t, TGroup):
            out.append(TGroup(t.delim, _symbolise_ts(t.ts, sym), t.origin))
        elif isinstance(t, TIdent) and t.name in sym:
            out.append(TIdent(sym[t.name], t.origin))
        else:
            out.append(t)
    return TS(out)


def _take_attrs(e, items, i, sym):
    attrs = []
    while i + 1 < len(items) and isinstance(items[i], TPunct) and items[i].ch == '#' and isinstance(items[i + 1], TGroup) and items[i + 1].delim == 'Bracket':
        g = items[i + 1]
        g = TGroup(g.delim, _symbolise_ts(g.ts, sym), g.origin)
        attrs.append(_attr_val(e, i, g, sym))
        i += 2
    return VecV(attrs), i


def _type_val(e, toks):
    pb = PB(list(toks), 0)
    if toks and isinstance(toks[0], TIdent):
        p, er = parse_path(e, pb)
        if er is None and pb.pos == len(toks):
            return EnumV('syn::Type', 8, {8: [Agg('syn::TypePath', [none(), p])]})
    idx = SYN_TYPE_VARIANTS.index('Tuple') if toks and isinstance(toks[0], TGroup) else SYN_TYPE_VARIANTS.index('Verbatim')
    return EnumV('syn::Type', idx, {idx: [Opq('Type', 'other', TS(list(toks)))]})


def _split_commas(items):
    out, cur, depth = [], [], 0
    prev = None
    for t in items:
        arrow = isinstance(prev, TPunct) and prev.ch in '-=' and prev.joint is True
        prev = t
        if isinstance(t, TPunct) and t.ch == '<':
            depth += 1
        elif isinstance(t, TPunct) and t.ch == '>' and not arrow:
            depth -= 1
        if isinstance(t, TPunct) and t.ch == ',' and depth == 0:
            out.append(cur); cur = []
        else:
            cur.append(t)
    if cur:
        out.append(cur)
    return out


def _fields_val(e, grp, sym):
    """brace / paren group -> syn::Fields"""
    if grp is None:
        return EnumV('syn::Fields', 2, {})
    fields = []
    for part in _split_commas(grp.ts.items):
        attrs, i = _take_attrs(e, part, 0, sym)
        rest = part[i:]
        if rest and isinstance(rest[0], TIdent) and rest[0].name == 'pub':
            rest = rest[1:]
        if grp.delim == 'Brace':
            name = rest[0]
            ident = some(IdentV(name.name, Opq('Span', 'id:' + name.name), 'user'))
            ty = _type_val(e, rest[2:])
        else:
            ident = none()
            ty = _type_val(e, rest)
        if e.syn == 2:
            fields.append(Agg('syn::Field', [attrs, Opq('Vis', 0), Opq('FieldMutability', 0), ident, none(), ty]))
        else:
            fields.append(Agg('syn::Field', [attrs, Opq('Vis', 0), ident, none(), ty]))
    if grp.delim == 'Brace':
        return EnumV('syn::Fields', 0, {0: [Agg('syn::FieldsNamed', [Opq('Token', '{}'), VecV(fields)])]})
    return EnumV('syn::Fields', 1, {1: [Agg('syn::FieldsUnnamed', [Opq('Token', '()'), VecV(fields)])]})


def derive_input(e, text, sym=None):
    """text of one struct/enum item -> syn::DeriveInput value.  sym: {placeholder ident: SymStr} for symbolic identifiers"""
    sym = sym or {}
    items = tokenize(text, 'user').items
    attrs, i = _take_attrs(e, items, 0, sym)
    if isinstance(items[i], TIdent) and items[i].name == 'pub':
        i += 1
    kw = items[i].name
    name = items[i + 1].name
    i += 2
    gparams = []
    if i < len(items) and isinstance(items[i], TPunct) and items[i].ch == '<':
        depth, j = 0, i
        while True:
            if isinstance(items[j], TPunct) and items[j].ch == '<':
                depth += 1
            elif isinstance(items[j], TPunct) and items[j].ch == '>':
                depth -= 1
                if depth == 0:
                    break
            j += 1
        from spec import TypeParam, GenericParamV
        gp = e.enums['syn::GenericParam']
        for part in _split_commas(items[i + 1:j]):
            from tokens import render
            decl = render(TS(part))
            if isinstance(part[0], TPunct) and part[0].ch == "'":
                p = TypeParam('lt', "'" + part[1].name, decl); var = 'Lifetime'
            elif isinstance(part[0], TIdent) and part[0].name == 'const':
                p = TypeParam('const', part[1].name, decl); var = 'Const'
            else:
                p = TypeParam('ty', part[0].name, decl); var = 'Type'
            gparams.append(EnumV('syn::GenericParam', gp.index(var), {gp.index(var): [GenericParamV(p)]}))
        i = j + 1
    if i < len(items) and isinstance(items[i], TIdent) and items[i].name == 'where':
        while i < len(items) and not (isinstance(items[i], TGroup) and items[i].delim == 'Brace'):
            i += 1
    body = items[i] if i < len(items) and isinstance(items[i], TGroup) else None
    if body is not None and body.delim == 'Parenthesis' and i + 1 < len(items) and isinstance(items[i + 1], TIdent) and items[i + 1].name == 'where':
        pass
    ident = IdentV(name, Opq('Span', 'id:' + name), 'user')
    if kw == 'struct':
        data = EnumV('syn::Data', 0, {0: [Agg('syn::DataStruct', [Opq('Token', 'struct'), _fields_val(e, body, sym), none()])]})
    elif kw == 'enum':
        variants = []
        for part in _split_commas(body.ts.items):
            vattrs, k = _take_attrs(e, part, 0, sym)
            vname = part[k].name
            vbody = part[k + 1] if k + 1 < len(part) and isinstance(part[k + 1], TGroup) else None
            variants.append(Agg('syn::Variant', [vattrs, IdentV(vname, Opq('Span', 'id:' + vname), 'user'), _fields_val(e, vbody, sym), none()]))
        data = EnumV('syn::Data', 1, {1: [Agg('syn::DataEnum', [Opq('Token', 'enum'), Opq('Token', '{}'), VecV(variants)])]})
    else:
        data = EnumV('syn::Data', 2, {2: [Opq('DataUnion', 0)]})
    return Agg('syn::DeriveInput', [attrs, Opq('Vis', 0), ident, GenericsV(gparams, None), data])


@exact('syn::parse_quote::parse', 'syn::__private::parse')
def m_parse_quote(e, args, info):
    ts = args[0]
    ty = strip_generics(generic_of2(info[-1]))
    if ty == 'syn::GenericParam':
        from spec import TypeParam, GenericParamV
        from tokens import render
        gp = e.enums['syn::GenericParam']
        items = ts.items
        if items and isinstance(items[0], TPunct) and items[0].ch == "'":
            p = TypeParam('lt', "'" + items[1].name, None)
            p.decl_ts = TS(list(items))
            v = GenericParamV(p)
            return EnumV('syn::GenericParam', gp.index('Lifetime'), {gp.index('Lifetime'): [v]})
        p = TypeParam('ty', items[0].name if isinstance(items[0], TIdent) else '?', None)
        p.decl_ts = TS(list(items))
        return EnumV('syn::GenericParam', gp.index('Type'), {gp.index('Type'): [GenericParamV(p)]})
    raise Unsupported('parse_quote::<%s>' % ty)


def generic_of2(callee):
    m = re.search(r'::parse::<(.*)>$', callee)
    return m.group(1) if m else ''
