"""Path-wise symbolic executor for rustc MIR text; z3 decides branch feasibility.

Forking is by deterministic re-execution from a recorded decision prefix (no state cloning),
so a path is the reproducible object (decisions, path condition, outcome).
"""
import re, time, os
import z3
from mir import parse_mir, compile_blocks, split_top, match_close, strip_generics, split_qualified

# --------------------------------------------------------------------------- values


class Cell:
    __slots__ = ('v',)

    def __init__(self, v=None):
        self.v = v


class Agg:
    """struct / tuple / array"""
    __slots__ = ('ty', 'f')

    def __init__(self, ty, f):
        self.ty, self.f = ty, f

    def __repr__(self):
        return '%s%r' % (self.ty or '', self.f)


class Clo:
    __slots__ = ('ty', 'f')

    def __init__(self, ty, f):
        self.ty, self.f = ty, f

    def __repr__(self):
        return 'Clo(%s)' % self.ty


class EnumV:
    __slots__ = ('ty', 'd', 'p')

    def __init__(self, ty, d, p=None):
        self.ty, self.d, self.p = ty, d, (p if p is not None else {})

    def __repr__(self):
        return '%s#%s%r' % (self.ty.split('::')[-1], self.d, self.p)


class Ref:
    __slots__ = ('cell', 'proj')

    def __init__(self, cell, proj=()):
        self.cell, self.proj = cell, proj

    def __repr__(self):
        return '&%x%r' % (id(self.cell) % 65536, self.proj)


class VecV:
    """Vec<T>, Punctuated<T,_>, slices of them"""
    __slots__ = ('items',)

    def __init__(self, items):
        self.items = items

    def __repr__(self):
        return 'Vec%r' % (self.items,)


class Wrap:
    """transparent wrapper (MaybeUninit / ManuallyDrop / Box internals): every field projection is the identity"""
    __slots__ = ('v',)

    def __init__(self, v=None):
        self.v = v


class FnItem:
    __slots__ = ('name',)

    def __init__(self, name):
        self.name = name

    def __repr__(self):
        return 'fn:' + self.name


class SymStr:
    """a string known only as one of a finite universe; `atom` is a z3 Int indexing `uni`"""
    __slots__ = ('atom', 'uni')

    def __init__(self, atom, uni):
        self.atom, self.uni = atom, tuple(uni)

    def __repr__(self):
        return 'SymStr(%s)' % self.atom


class FmtStr:
    """result of format!: concrete pieces interleaved with SymStr pieces"""
    __slots__ = ('parts',)

    def __init__(self, parts):
        out = []
        for p in parts:
            if isinstance(p, FmtStr):
                for q in p.parts:
                    out.append(q)
            else:
                out.append(p)
        merged = []
        for p in out:
            if isinstance(p, str) and merged and isinstance(merged[-1], str):
                merged[-1] += p
            else:
                merged.append(p)
        self.parts = merged

    def __repr__(self):
        return 'Fmt%r' % (self.parts,)


class Opq:
    """opaque library value with identity (Span, syn::Path, Lifetime, ...)"""
    __slots__ = ('kind', 'id', 'data')

    def __init__(self, kind, id, data=None):
        self.kind, self.id, self.data = kind, id, data

    def __repr__(self):
        return '%s<%s>' % (self.kind, self.id)


class Unsupported(Exception):
    pass


class Panic(Exception):
    def __init__(self, msg, site=None):
        Exception.__init__(self, msg)
        self.msg, self.site = msg, site


class Infeasible(Exception):
    pass


class PathLimit(Exception):
    pass


def clone_val(v):
    """deep copy of owned data; references stay shared"""
    if isinstance(v, Agg):
        return Agg(v.ty, [clone_val(x) for x in v.f])
    if isinstance(v, EnumV):
        return EnumV(v.ty, v.d, {k: [clone_val(x) for x in f] for k, f in v.p.items()})
    if isinstance(v, VecV):
        return VecV([clone_val(x) for x in v.items])
    if isinstance(v, Clo):
        return Clo(v.ty, [clone_val(x) for x in v.f])
    if isinstance(v, Wrap):
        return Wrap(clone_val(v.v))
    c = getattr(v, 'clone', None)
    if c is not None and not isinstance(v, (z3.ExprRef,)):
        return c()
    return v


def is_sym(v):
    return isinstance(v, z3.ExprRef)


def z3bool(v):
    return z3.BoolVal(v) if isinstance(v, bool) else v


# --------------------------------------------------------------------------- type tables

EXT_ENUMS = {
    'std::option::Option': ['None', 'Some'],
    'std::result::Result': ['Ok', 'Err'],
    'std::ops::ControlFlow': ['Continue', 'Break'],
    'syn::Member': ['Named', 'Unnamed'],
    'proc_macro2::TokenTree': ['Group', 'Ident', 'Punct', 'Literal'],
    'proc_macro2::Delimiter': ['Parenthesis', 'Brace', 'Bracket', 'None'],
    'proc_macro2::Spacing': ['Alone', 'Joint'],
    'syn::Data': ['Struct', 'Enum', 'Union'],
    'syn::Fields': ['Named', 'Unnamed', 'Unit'],
    # syn 1.x declaration orders (o2o-impl is built with the `syn` = syn1 feature)
    'syn::GenericParam': ['Type', 'Lifetime', 'Const'],
    'syn::GenericArgument': ['Lifetime', 'Type', 'Const', 'Binding', 'Constraint'],
    'syn::PathArguments': ['None', 'AngleBracketed', 'Parenthesized'],
}
# syn 2.x declaration orders (MIR built with the `syn2` feature)
EXT_ENUMS_SYN2 = {
    'syn::GenericParam': ['Lifetime', 'Type', 'Const'],
    'syn::GenericArgument': ['Lifetime', 'Type', 'Const', 'AssocType', 'AssocConst', 'Constraint'],
    'syn::Meta': ['Path', 'List', 'NameValue'],
    'syn::MacroDelimiter': ['Paren', 'Brace', 'Bracket'],
}
EXT_TUPLE_VARIANTS = {'syn::Member::Named', 'syn::Member::Unnamed', 'std::option::Option::Some', 'std::result::Result::Ok', 'std::result::Result::Err'}
EXT_ENUM_DISCR = {'std::cmp::Ordering': {'Less': -1, 'Equal': 0, 'Greater': 1}}
EXT_STRUCTS = {
    'syn::Index': ['index', 'span'],
}


def load_src_types(src_paths):
    structs, enums, variant_fields = {}, {}, {}
    for mod, p in src_paths.items():
        src = open(p).read()
        src_nc = re.sub(r'//[^\n]*', '', src)
        for m in re.finditer(r'(?:pub(?:\(crate\))? )?struct (\w+)(?:<[^>{]*>)? *\{', src_nc):
            end = match_close(src_nc, m.end() - 1)
            names = []
            for part in split_top(src_nc[m.end():end]):
                part = re.sub(r'#\[[^\]]*\]', '', part).strip()
                mm = re.match(r'(?:pub(?:\([a-z]+\))? )?(\w+) *:', part)
                if mm:
                    names.append(mm.group(1))
            structs['%s::%s' % (mod, m.group(1))] = names
        for m in re.finditer(r'(?:pub(?:\(crate\))? )?enum (\w+)(?:<[^>{]*>)? *\{', src_nc):
            end = match_close(src_nc, m.end() - 1)
            names = []
            for part in split_top(src_nc[m.end():end]):
                part = re.sub(r'#\[[^\]]*\]', '', part).strip()
                mm = re.match(r'(\w+)', part)
                if mm:
                    names.append(mm.group(1))
                    sm = re.match(r'\w+ *\{(.*)\}', part, re.S)
                    if sm:
                        fl = []
                        for fp in split_top(sm.group(1)):
                            fm = re.match(r'(\w+) *:', fp.strip())
                            if fm:
                                fl.append(fm.group(1))
                        variant_fields['%s::%s::%s' % (mod, m.group(1), mm.group(1))] = fl
            enums['%s::%s' % (mod, m.group(1))] = names
    return structs, enums, variant_fields


# --------------------------------------------------------------------------- engine

class PathResult:
    __slots__ = ('decisions', 'pc', 'kind', 'value', 'site', 'aux')

    def __init__(self, decisions, pc, kind, value, site=None, aux=None):
        self.decisions, self.pc, self.kind, self.value, self.site, self.aux = decisions, pc, kind, value, site, aux


class Engine:
    def __init__(self, mir_path, src_paths, syn=1):
        self.fns, self.consts = parse_mir(open(mir_path).read())
        self.src_paths = src_paths
        self.syn = syn               # which parser back-end the MIR was built with (cargo feature `syn` = 1, `syn2` = 2)
        self.structs, self.enums, self.variant_fields = load_src_types(src_paths)
        self.enums.update(EXT_ENUMS)
        if syn == 2:
            self.enums.update(EXT_ENUMS_SYN2)
        self.structs.update(EXT_STRUCTS)
        self.aliases = {}
        for sp in src_paths.values():
            for am in re.finditer(r'^type (\w+) = (.+);', open(sp).read(), re.M):
                self.aliases[am.group(1)] = am.group(2).strip()
        self.compiled = {}
        self.tuple_variants = set()
        self.closure_defs = {}
        for name, f in self.fns.items():
            if '{closure#' in name.rsplit('::', 1)[-1] and f.params:
                m = re.search(r'\{closure@[^}]*\}', f.params[0][1])
                if m:
                    self.closure_defs[m.group(0)] = name
        self.inherent, self.trait_impls = {}, {}
        self._index_impls()
        self.overrides = {}          # fn name -> python callable(engine, args)
        self.dispatch_cache = {}
        self.const_cache = {}
        self.solver = z3.Solver()
        self.stats = {'stmts': 0, 'calls': 0, 'solver': 0, 'solver_s': 0.0, 'paths': 0, 'forks': 0}
        self.fresh_n = 0
        self.trace_calls = False
        self.encoded = set()         # MIR functions actually executed
        self.models_used = set()
        self.max_stmts_per_path = 3_000_000
        import models
        self.models = models
        models.install(self)

    # ----- impl index ---------------------------------------------------------------
    def _index_impls(self):
        cache = {}
        srcs = {}
        for name in self.fns:
            m = re.match(r'(\w+)::<impl at ([^:]+):(\d+):(\d+): (\d+):(\d+)>::(\w+)$', name)
            if not m:
                continue
            mod, file, l, c, l2, c2, meth = m.groups()
            key = (file, int(l), int(c))
            if key not in cache:
                cand = [p for p in self.src_paths.values() if p.endswith('/' + file.split('/')[-1])]
                if not cand:
                    continue
                if cand[0] not in srcs:
                    srcs[cand[0]] = open(cand[0]).read().split('\n')
                lines = srcs[cand[0]]
                line = lines[int(l) - 1][int(c) - 1:]
                if line.startswith('impl'):
                    hdr = line
                    k = int(l)
                    while '{' not in hdr and k < len(lines):
                        hdr += ' ' + lines[k].strip(); k += 1
                    hdr = hdr.split('{')[0]
                    hdr = hdr[4:].strip()
                    if hdr.startswith('<'):
                        hdr = hdr[match_close(hdr, 0) + 1:].strip()
                    hdr = re.sub(r'\bwhere\b.*', '', hdr).strip()
                    if ' for ' in hdr:
                        tr, ty = hdr.split(' for ', 1)
                    else:
                        tr, ty = None, hdr
                    cache[key] = (tr.strip() if tr else None, ty.strip())
                else:
                    tr = re.match(r'\w+', line).group(0)
                    ty = None
                    for k in range(int(l) - 1, min(len(lines), int(l) + 12)):
                        mm = re.search(r'(?:struct|enum) (\w+)', lines[k])
                        if mm:
                            ty = mm.group(1); break
                    cache[key] = (tr, ty)
            tr, ty = cache[key]
            if ty is None:
                continue
            ty_bare = re.sub(r'<.*', '', ty).strip()
            ty_full = self.aliases.get(ty_bare, None)
            if tr is None:
                self.inherent['%s::%s::%s' % (mod, ty_bare, meth)] = name
                for full in list(self.structs) + list(self.enums):
                    if full.endswith('::' + ty_bare):
                        self.inherent['%s::<impl %s>::%s' % (mod, full, meth)] = name
            else:
                trn = re.sub(r'<.*', '', tr).split('::')[-1]
                targ = re.search(r'<(.*)>', tr)
                targ = targ.group(1).replace("'a ", '').replace('&', '').strip() if targ else None
                tkey = ty_full if ty_full else '%s::%s' % (mod, ty_bare)
                self.trait_impls.setdefault((tkey, trn, meth), []).append((targ, name))

    # ----- solver -------------------------------------------------------------------
    def fresh(self, prefix, sort='int'):
        self.fresh_n += 1
        nm = '%s!%d' % (prefix, self.fresh_n)
        return z3.Int(nm) if sort == 'int' else z3.Bool(nm)

    def feasible(self, cond):
        t = time.time()
        self.solver.push()
        self.solver.add(cond)
        r = self.solver.check()
        self.solver.pop()
        self.stats['solver'] += 1
        self.stats['solver_s'] += time.time() - t
        if r == z3.unknown:
            raise Unsupported('solver unknown on branch condition')
        return r == z3.sat

    def _take(self, lab, cond):
        self.decisions.append(lab) if self.dpos >= len(self.decisions) else None
        self.dpos += 1
        self.solver.add(cond)
        self.pc.append(cond)
        return lab

    def decide(self, options):
        """options: [(label, cond)], cond a python bool or z3 Bool.  Labels must be hashable and deterministic."""
        opts = []
        for l, c in options:
            if c is True:
                return l
            if c is False:
                continue
            cs = z3.simplify(c)
            if z3.is_true(cs):
                return l
            if z3.is_false(cs):
                continue
            opts.append((l, cs))
        if not opts:
            raise Infeasible()
        pos = self.dpos
        if pos < len(self.decisions):
            lab = self.decisions[pos]
            for l, c in opts:
                if l == lab:
                    self.dpos += 1
                    self.solver.add(c); self.pc.append(c)
                    return lab
            raise Unsupported('replay divergence at decision %d: %r not in %r' % (pos, lab, [l for l, _ in opts]))
        feas = [(l, c) for l, c in opts if self.feasible(c)]
        if not feas:
            raise Infeasible()
        if len(feas) > 1:
            self.stats['forks'] += len(feas) - 1
            for l, c in feas[1:]:
                self.worklist.append(self.decisions[:pos] + [l])
        lab, cond = feas[0]
        self.decisions.append(lab)
        self.dpos += 1
        self.solver.add(cond); self.pc.append(cond)
        return lab

    def branch(self, b):
        if isinstance(b, bool):
            return b
        return self.decide([(True, b), (False, z3.Not(b))])

    def concretize(self, v, candidates):
        """fork on the value of an int term over candidate values"""
        if isinstance(v, int):
            return v
        return self.decide([(k, v == k) for k in candidates])

    def assume(self, cond):
        if cond is True:
            return
        if cond is False:
            raise Infeasible()
        self.solver.add(cond); self.pc.append(cond)
        if self.solver.check() != z3.sat:
            raise Infeasible()

    # ----- exploration driver -------------------------------------------------------
    def explore(self, run, max_paths=200000, on_path=None):
        self.worklist = [[]]
        results = []
        while self.worklist:
            if len(results) >= max_paths:
                raise PathLimit('more than %d paths' % max_paths)
            self.decisions = self.worklist.pop()
            self.dpos = 0
            self.pc = []
            self.path_stmts = 0
            self.fresh_n = 0
            self.solver.push()
            self.aux = {}
            try:
                r = run(self)
                res = PathResult(list(self.decisions), list(self.pc), 'ok', r, aux=self.aux)
            except Panic as e:
                res = PathResult(list(self.decisions), list(self.pc), 'panic', e.msg, e.site, aux=self.aux)
            except Infeasible:
                res = None
            finally:
                self.solver.pop()
            if res is not None:
                self.stats['paths'] += 1
                if on_path:
                    on_path(res)
                results.append(res)
        return results

    # ----- places -------------------------------------------------------------------
    def lval(self, frame, pl):
        k = pl[0]
        if k == 'local':
            return frame[pl[1]], ()
        if k == 'deref':
            c, p = self.lval(frame, pl[1])
            r = self.load(c, p)
            if isinstance(r, Ref):
                return r.cell, r.proj
            if isinstance(r, Wrap):       # Box<T> modelled as a transparent wrapper
                return c, p
            raise Unsupported('deref of non-ref %r' % (r,))
        if k == 'field':
            c, p = self.lval(frame, pl[1])
            return c, p + (('f', pl[2]),)
        if k == 'downcast':
            c, p = self.lval(frame, pl[1])
            return c, p + (('v', pl[2]),)
        if k == 'cidx':
            c, p = self.lval(frame, pl[1])
            return c, p + (('f', pl[2]),)
        if k == 'idx':
            c, p = self.lval(frame, pl[1])
            i = frame[pl[2]].v
            if not isinstance(i, int):
                raise Unsupported('symbolic index')
            return c, p + (('f', i),)
        raise Unsupported(str(pl))

    def _variant_index(self, ev, name):
        names = self.enums.get(ev.ty)
        if names is None:
            d = EXT_ENUM_DISCR.get(ev.ty)
            if d:
                return d[name]
            raise Unsupported('unknown enum ' + ev.ty)
        return names.index(name)

    def load(self, cell, proj):
        v = cell.v
        for pr in proj:
            if pr[0] == 'f':
                if isinstance(v, (Agg, Clo)):
                    v = v.f[pr[1]]
                elif isinstance(v, VecV):
                    v = v.items[pr[1]]
                elif isinstance(v, list):
                    v = v[pr[1]]
                elif isinstance(v, Wrap):
                    pass
                else:
                    h = getattr(v, 'get_field', None)
                    if h is None:
                        raise Unsupported('field %d of %s %r' % (pr[1], type(v).__name__, v))
                    v = h(self, pr[1])
            else:
                if isinstance(v, EnumV):
                    idx = self._variant_index(v, pr[1])
                    pl = v.p.get(idx)
                    if pl is None:
                        pl = v.p[idx] = []
                    v = pl
                else:
                    h = getattr(v, 'downcast', None)
                    if h is None:
                        raise Unsupported('downcast of %r' % (v,))
                    v = h(self, pr[1])
        if isinstance(v, Wrap) and v.v is not None and not isinstance(v.v, Wrap):
            return v
        return v

    def store(self, cell, proj, val):
        if not proj:
            cell.v = val
            return
        v = cell.v
        # find last non-Wrap container
        parent, last = None, None
        for pr in proj:
            if isinstance(v, Wrap):
                if pr[0] == 'f':
                    parent, last = v, 'wrap'
                    continue
            parent, last = v, pr
            if pr[0] == 'f':
                if isinstance(v, (Agg, Clo)):
                    while len(v.f) <= pr[1]:
                        v.f.append(None)
                    v = v.f[pr[1]]
                elif isinstance(v, VecV):
                    v = v.items[pr[1]]
                elif isinstance(v, list):
                    while len(v) <= pr[1]:
                        v.append(None)
                    v = v[pr[1]]
                else:
                    raise Unsupported('store field of %r' % (v,))
            else:
                idx = self._variant_index(v, pr[1])
                pl = v.p.get(idx)
                if pl is None:
                    pl = v.p[idx] = []
                v = pl
        if last == 'wrap':
            parent.v = val
            return
        if last[0] != 'f':
            raise Unsupported('store to downcast')
        if isinstance(parent, (Agg, Clo)):
            parent.f[last[1]] = val
        elif isinstance(parent, VecV):
            parent.items[last[1]] = val
        elif isinstance(parent, list):
            parent[last[1]] = val
        else:
            raise Unsupported('store into %r' % (parent,))

    def deref(self, r):
        """value behind a Ref (or the value itself)"""
        while isinstance(r, Ref):
            r = self.load(r.cell, r.proj)
        return r

    def deref1(self, r):
        if isinstance(r, Ref):
            return self.load(r.cell, r.proj)
        return r

    # ----- constants ----------------------------------------------------------------
    def const(self, s, fn):
        if s == 'true':
            return True
        if s == 'false':
            return False
        c0 = s[0]
        if c0.isdigit() or c0 == '-':
            m = re.match(r'(-?\d+)_(?:[iu]\d+|[iu]size)$', s)
            if m:
                return int(m.group(1))
        if c0 == '"':
            return bytes(s[1:-1], 'utf-8').decode('unicode_escape').encode('latin-1').decode('utf-8') if '\\' in s else s[1:-1]
        if c0 == "'" and s[-1] == "'":
            body = s[1:-1]
            if body.startswith('\\'):
                body = bytes(body, 'utf-8').decode('unicode_escape')
            return ord(body)
        if c0 == 'b' and s.startswith('b"'):
            return s[2:-1].encode('utf-8').decode('unicode_escape').encode('latin-1')
        if s.startswith('ZeroSized: '):
            t = s[11:]
            if t.startswith('{closure@'):
                return Clo(t, [])
            return FnItem(t)
        if s == '()':
            return Agg(None, [])
        if 'promoted[' in s:
            k = fn.name + '::' + s.split('::')[-1]
            if k not in self.consts:
                k2 = s
                if k2 in self.consts:
                    k = k2
                else:
                    raise Unsupported('promoted ' + s + ' in ' + fn.name)
            return self.eval_const(k)
        bare = strip_generics(s)
        if bare in self.consts:
            return self.eval_const(bare)
        if bare in self.fns or bare in self.inherent:
            return FnItem(s)
        parts = bare.split('::')
        ty = '::'.join(parts[:-1])
        if ty in self.enums and parts[-1] in self.enums[ty]:
            if ty + '::' + parts[-1] in self.tuple_variants or ty + '::' + parts[-1] in EXT_TUPLE_VARIANTS:
                return FnItem(s)
            return EnumV(ty, self.enums[ty].index(parts[-1]), {})
        if ty in EXT_ENUM_DISCR and parts[-1] in EXT_ENUM_DISCR[ty]:
            return EnumV(ty, EXT_ENUM_DISCR[ty][parts[-1]], {})
        m = re.match(r'\{transmute\((.*)\): (.*)\}$', s)
        if m:
            ty = strip_generics(m.group(2))
            if ty in self.enums:
                return EnumV(ty, int(m.group(1), 16), {})
        h = self.models.const_model(self, s)
        if h is not NotImplemented:
            return h
        if self.models.lookup(self, s, bare) is not None:
            return FnItem(s)          # a library function used as a value (e.g. `TokenStream::new` passed as a closure)
        raise Unsupported('const ' + s)

    def eval_const(self, name):
        # promoted constants are immutable; a Ref into a shared cell is fine
        if name in self.const_cache:
            return self.const_cache[name]
        f = self.consts[name]
        frame = [Cell() for _ in range(f.nlocals)]
        self.run_body(f, frame)
        v = frame[0].v
        self.const_cache[name] = v
        return v

    # ----- operands / rvalues -------------------------------------------------------
    def operand(self, frame, op, fn):
        k = op[0]
        if k == 'move':
            c, p = self.lval(frame, op[1])
            return self.load(c, p)
        if k == 'copy':
            c, p = self.lval(frame, op[1])
            v = self.load(c, p)
            if isinstance(v, (Agg, EnumV)):
                return clone_val(v)
            return v
        return self.const(op[1], fn)

    def binop(self, op, a, b):
        if isinstance(a, EnumV) or isinstance(b, EnumV):
            raise Unsupported('binop on enum')
        sym = is_sym(a) or is_sym(b)
        if sym:
            if isinstance(a, bool):
                a = z3.BoolVal(a)
            if isinstance(b, bool):
                b = z3.BoolVal(b)
        if op == 'Eq':
            return a == b
        if op == 'Ne':
            return a != b
        if op == 'Lt':
            return a < b
        if op == 'Le':
            return a <= b
        if op == 'Gt':
            return a > b
        if op == 'Ge':
            return a >= b
        if op in ('Add', 'AddUnchecked'):
            return a + b
        if op in ('Sub', 'SubUnchecked'):
            return a - b
        if op == 'Mul':
            return a * b
        if op == 'BitAnd':
            if sym:
                return z3.And(a, b)
            return (a and b) if isinstance(a, bool) else (a & b)
        if op == 'BitOr':
            if sym:
                return z3.Or(a, b)
            return (a or b) if isinstance(a, bool) else (a | b)
        if op == 'BitXor':
            if sym:
                return z3.Xor(a, b)
            return (a != b) if isinstance(a, bool) else (a ^ b)
        if op == 'AddWithOverflow':
            return Agg(None, [a + b, False])      # usize counters; overflow impossible within the stated bounds
        if op == 'SubWithOverflow':
            r = a - b
            return Agg(None, [r, (r < 0)])
        if op == 'MulWithOverflow':
            return Agg(None, [a * b, False])
        raise Unsupported('binop ' + op)

    def rvalue(self, frame, rv, fn):
        k = rv[0]
        if k == 'use':
            return self.operand(frame, rv[1], fn)
        if k == 'ref':
            c, p = self.lval(frame, rv[1])
            return Ref(c, p)
        if k == 'discr':
            c, p = self.lval(frame, rv[1])
            v = self.load(c, p)
            if isinstance(v, EnumV):
                return v.d
            h = getattr(v, 'discriminant', None)
            if h is not None:
                return h(self)
            raise Unsupported('discriminant of %r in %s' % (v, fn.name))
        if k == 'bin':
            return self.binop(rv[1], self.operand(frame, rv[2], fn), self.operand(frame, rv[3], fn))
        if k == 'un':
            a = self.operand(frame, rv[2], fn)
            if rv[1] == 'Not':
                return (not a) if isinstance(a, bool) else (z3.Not(a) if is_sym(a) else ~a)
            if rv[1] == 'Neg':
                return -a
            if rv[1] == 'PtrMetadata':
                v = self.deref(a)
                return len(v.items) if isinstance(v, VecV) else len(v.f)
            raise Unsupported('unop ' + rv[1])
        if k == 'tuple':
            return Agg(None, [self.operand(frame, x, fn) for x in rv[1]])
        if k == 'array':
            return Agg('[]', [self.operand(frame, x, fn) for x in rv[1]])
        if k == 'repeat':
            v = self.operand(frame, rv[1], fn)
            n = int(re.match(r'(\d+)', rv[2].replace('const ', '')).group(1))
            return Agg('[]', [clone_val(v) for _ in range(n)])
        if k == 'closure':
            return Clo(rv[1], [self.operand(frame, x, fn) for x in rv[2]])
        if k == 'struct':
            ty = rv[1]
            names = self.structs.get(ty)
            vals = {nm: self.operand(frame, op, fn) for nm, op in rv[2]}
            if names is not None:
                return Agg(ty, [vals.get(n) for n in names])
            names = self.variant_fields.get(ty)
            if names is not None:
                ety, var = ty.rsplit('::', 1)
                idx = self.enums[ety].index(var)
                return EnumV(ety, idx, {idx: [vals.get(n) for n in names]})
            h = self.models.struct_model(self, ty, vals)
            if h is not NotImplemented:
                return h
            raise Unsupported('struct aggregate ' + ty)
        if k == 'ctor':
            path = rv[1]
            ety, _, var = path.rpartition('::')
            args = [self.operand(frame, x, fn) for x in rv[2]]
            names = self.enums.get(ety)
            if names is not None and var in names:
                idx = names.index(var)
                return EnumV(ety, idx, {idx: args})
            return Agg(path, args)        # tuple struct
        if k == 'cast':
            v = self.operand(frame, rv[1], fn)
            ck = rv[3]
            if ck == 'Transmute':
                if isinstance(v, Wrap):
                    return Ref(Cell(v), ())
                return v
            return v
        if k == 'len':
            c, p = self.lval(frame, rv[1])
            v = self.load(c, p)
            return len(v.items) if isinstance(v, VecV) else len(v.f)
        raise Unsupported('rvalue ' + k)

    # ----- execution ----------------------------------------------------------------
    def call_fn(self, name, args):
        ov = self.overrides.get(name)
        if ov is not None:
            return ov(self, args)
        f = self.fns[name]
        frame = [Cell() for _ in range(f.nlocals)]
        for (pn, _), a in zip(f.params, args):
            frame[pn].v = a
        self.run_body(f, frame)
        return frame[0].v

    def run_body(self, f, frame):
        blocks = self.compiled.get(f.name)
        if blocks is None:
            blocks = self.compiled[f.name] = compile_blocks(f)
            self.encoded.add(f.name)
        bb = 'bb0'
        lval, store, rvalue = self.lval, self.store, self.rvalue
        while True:
            stmts, term, _raw = blocks[bb]
            self.path_stmts += len(stmts) + 1
            for st in stmts:
                if st[0] == 'assign':
                    val = rvalue(frame, st[2], f)
                    pl = st[1]
                    if pl[0] == 'local':
                        frame[pl[1]].v = val
                    else:
                        c, p = lval(frame, pl)
                        store(c, p, val)
                else:   # setdiscr
                    c, p = lval(frame, st[1])
                    v = self.load(c, p)
                    v.d = st[2]
            self.stats['stmts'] += len(stmts) + 1
            if self.path_stmts > self.max_stmts_per_path:
                raise Unsupported('statement budget exceeded in ' + f.name)
            k = term[0]
            if k == 'goto':
                bb = term[1]
            elif k == 'switch':
                v = self.operand(frame, term[1], f)
                if isinstance(v, bool):
                    v = int(v)
                if isinstance(v, int):
                    nxt = term[3]
                    for kk, b2 in term[2]:
                        if kk == v:
                            nxt = b2; break
                    if nxt is None:
                        raise Unsupported('switch without target in ' + f.name)
                    bb = nxt
                else:
                    opts = []
                    if z3.is_bool(v):
                        seen0 = seen1 = False
                        for kk, b2 in term[2]:
                            if kk == 0:
                                opts.append((b2, z3.Not(v))); seen0 = True
                            else:
                                opts.append((b2, v)); seen1 = True
                        if term[3] is not None and not (seen0 and seen1):
                            opts.append((term[3], v if seen0 else z3.Not(v)))
                    else:
                        vals = [kk for kk, _ in term[2]]
                        for kk, b2 in term[2]:
                            opts.append((b2, v == kk))
                        if term[3] is not None:
                            opts.append((term[3], z3.And([v != x for x in vals])))
                    bb = self.decide(opts)
            elif k == 'call':
                callee = term[2]
                args = [self.operand(frame, a, f) for a in term[3]]
                self.stats['calls'] += 1
                try:
                    r = self.dispatch(callee, args, f)
                except Panic as e:
                    if e.site is None:
                        e.site = '%s:%s' % (f.name, bb)
                    raise
                if term[4] is None:
                    raise Panic('diverging call returned: ' + callee, '%s:%s' % (f.name, bb))
                pl = term[1]
                if pl[0] == 'local':
                    frame[pl[1]].v = r
                else:
                    c, p = lval(frame, pl)
                    store(c, p, r)
                bb = term[4]
            elif k == 'return':
                return
            elif k == 'assert':
                v = self.operand(frame, term[2], f)
                if term[1]:
                    v = (not v) if isinstance(v, bool) else z3.Not(v)
                if self.branch(v):
                    bb = term[4]
                else:
                    raise Panic('assert failed: ' + term[3], '%s:%s' % (f.name, bb))
            elif k == 'unreachable':
                raise Unsupported('reached `unreachable` terminator in %s %s' % (f.name, bb))
            else:
                raise Unsupported('terminator ' + k)

    # ----- dispatch -----------------------------------------------------------------
    def resolve(self, callee):
        r = self.dispatch_cache.get(callee)
        if r is not None:
            return r
        bare = strip_generics(callee)
        r = None
        if bare in self.fns:
            r = ('mir', bare)
        elif bare in self.inherent:
            r = ('mir', self.inherent[bare])
        elif '::<impl ' in callee and re.match(r"(\w+)::<impl ([\w:]+)(?:<[^>]*>)?>::(\w+)", callee) and \
                '%s::<impl %s>::%s' % re.match(r"(\w+)::<impl ([\w:]+)(?:<[^>]*>)?>::(\w+)", callee).groups() in self.inherent:
            r = ('mir', self.inherent['%s::<impl %s>::%s' % re.match(r"(\w+)::<impl ([\w:]+)(?:<[^>]*>)?>::(\w+)", callee).groups()])
        else:
            q = split_qualified(callee)
            if q:
                ty, tr, meth = q[0], q[1], q[2]
                tyb = strip_generics(ty)
                trn = strip_generics(tr).split('::')[-1]
                cands = self.trait_impls.get((tyb, trn, meth)) or self.trait_impls.get((ty, trn, meth))
                if cands:
                    if len(cands) == 1:
                        r = ('mir', cands[0][1])
                    else:
                        targ = re.search(r'<(.*)>', tr)
                        targ = targ.group(1).replace('&', '').strip() if targ else None
                        for ta, nm in cands:
                            if ta is not None and targ is not None and (ta == targ or ta.split('::')[-1] == re.sub(r"'\w+ ", '', targ).split('::')[-1]):
                                r = ('mir', nm); break
        if r is None:
            h = self.models.lookup(self, callee, bare)
            if h is None:
                ety, _, var = bare.rpartition('::')
                if ety in self.enums and var in self.enums[ety]:
                    r = ('ctor', ety, self.enums[ety].index(var))
                else:
                    raise Unsupported('call ' + callee)
            else:
                r = ('model', h)
        self.dispatch_cache[callee] = r
        return r

    def dispatch(self, callee, args, caller=None):
        r = self.resolve(callee)
        if self.trace_calls:
            print('  ' * 0 + 'CALL', callee[:140])
        if r[0] == 'ctor':
            return EnumV(r[1], r[2], {r[2]: list(args)})
        if r[0] == 'mir':
            gs = getattr(self, 'gstack', None)
            if gs is not None and callee.endswith('>') and '::<' in callee:
                k = callee.rfind('::<')
                # method generics of the call (`name::<A, B>`); used to resolve `T` inside generic helper fns
                depth, j = 0, len(callee) - 1
                gs.append([x.strip() for x in split_top(callee[k + 3:-1])] if callee.count('<', k) == callee.count('>', k) else [])
                try:
                    return self.call_fn(r[1], args)
                finally:
                    gs.pop()
            return self.call_fn(r[1], args)
        fn, mm = r[1]
        self.models_used.add(fn.__name__)
        return fn(self, args, mm)

    def call_closure(self, clo, args):
        """invoke a closure / fn item value with a python list of arguments"""
        if isinstance(clo, Ref):
            clo = self.load(clo.cell, clo.proj)
            if isinstance(clo, Ref):
                return self.call_closure(clo, args)
        if isinstance(clo, FnItem):
            return self.dispatch(clo.name, list(args))
        if callable(clo):
            return clo(self, *args)
        if not isinstance(clo, Clo):
            raise Unsupported('call of non-closure %r' % (clo,))
        name = self.closure_defs.get(clo.ty)
        if name is None:
            raise Unsupported('closure body not found: ' + clo.ty)
        f = self.fns[name]
        p0 = f.params[0][1]
        env = Ref(Cell(clo)) if p0.startswith('&') else clo
        return self.call_fn(name, [env] + list(args))
