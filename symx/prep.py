"""Regenerate the MIR encoding from /repo's current working tree.

A scratch copy of o2o-impl (sources + a trimmed manifest) is made outside /repo and /verif,
`cargo +nightly rustc -- -Zunpretty=mir` is run on it with a persistent *dependency* cache
under /verif/target/mir (the crate itself is always recompiled), and the text is returned
together with the scratch source paths (needed for struct-field / enum-variant order and
`impl` headers, which MIR identifies by declaration index and source span).
"""
import os, re, shutil, subprocess, tempfile, time, hashlib, atexit

REPO = os.environ.get('VERIF_REPO', '/repo')
VERIF = os.path.dirname(os.path.dirname(os.path.abspath(__file__)))
TARGET = os.path.join(VERIF, 'target', 'mir')


def scratch_dir(prefix='o2o-symx-'):
    base = os.environ.get('VERIF_SCRATCH', '/var/tmp')
    os.makedirs(base, exist_ok=True)
    d = tempfile.mkdtemp(prefix=prefix, dir=base)
    atexit.register(shutil.rmtree, d, ignore_errors=True)
    return d


def src_digest():
    h = hashlib.sha256()
    d = os.path.join(REPO, 'o2o-impl', 'src')
    for f in sorted(os.listdir(d)):
        if f.endswith('.rs') and f != 'tests.rs':
            h.update(f.encode()); h.update(open(os.path.join(d, f), 'rb').read())
    return h.hexdigest()[:16]


def prepare(extra_rs=None, feature='syn'):
    """-> dict(mir=path, src={mod: path}, dir=scratch, secs=float).  extra_rs: {filename: text} appended modules."""
    t0 = time.time()
    d = scratch_dir()
    crate = os.path.join(d, 'o2o-impl')
    os.makedirs(os.path.join(crate, 'src'))
    for f in os.listdir(os.path.join(REPO, 'o2o-impl', 'src')):
        if f.endswith('.rs') and f != 'tests.rs':
            shutil.copy(os.path.join(REPO, 'o2o-impl', 'src', f), os.path.join(crate, 'src', f))
    open(os.path.join(crate, 'src', 'tests.rs'), 'w').write('')      # the crate's unit tests are cfg(test) only
    man = open(os.path.join(REPO, 'o2o-impl', 'Cargo.toml')).read()
    man = re.sub(r'\[dev-dependencies\].*?(?=\n\[|\Z)', '', man, flags=re.S)
    man = re.sub(r'\[\[bench\]\].*?(?=\n\[|\Z)', '', man, flags=re.S)
    man += '\n[workspace]\n'
    open(os.path.join(crate, 'Cargo.toml'), 'w').write(man)
    lock = os.path.join(REPO, 'Cargo.lock')
    if os.path.exists(lock):
        shutil.copy(lock, os.path.join(crate, 'Cargo.lock'))
    env = dict(os.environ, CARGO_NET_OFFLINE='true', RUSTFLAGS='', CARGO_TARGET_DIR=TARGET)
    env.pop('RUSTUP_TOOLCHAIN', None)
    cmd = ['cargo', '+nightly', 'rustc', '--offline', '--lib', '--features', feature, '--',
           '-Zunpretty=mir', '-Ztrim-diagnostic-paths=no', '-C', 'debug-assertions=off', '-C', 'overflow-checks=on', '-Awarnings']
    p = subprocess.run(cmd, cwd=crate, env=env, stdout=subprocess.PIPE, stderr=subprocess.PIPE, text=True)
    if p.returncode != 0 and os.path.exists(os.path.join(crate, 'Cargo.lock')):
        os.remove(os.path.join(crate, 'Cargo.lock'))
        p = subprocess.run(cmd, cwd=crate, env=env, stdout=subprocess.PIPE, stderr=subprocess.PIPE, text=True)
    if p.returncode != 0:
        raise RuntimeError('MIR dump failed (does /repo compile?):\n' + p.stderr[-4000:])
    mir = os.path.join(d, 'mir.txt')
    open(mir, 'w').write(p.stdout)
    src = {}
    for f in os.listdir(os.path.join(crate, 'src')):
        if f.endswith('.rs') and f not in ('lib.rs', 'tests.rs'):
            src[f[:-3]] = os.path.join(crate, 'src', f)
    return {'mir': mir, 'src': src, 'dir': d, 'secs': time.time() - t0, 'digest': src_digest(), 'lines': p.stdout.count('\n')}


if __name__ == '__main__':
    r = prepare()
    print(r)
