"""Builders for the symbolic post-parse model (o2o-impl's own types) in engine values.

Field order always comes from the scratch copy of the crate's sources (engine.structs), so a
reordered / extended struct in /repo is followed automatically; a field the builder does not
know is reported as Unsupported rather than guessed.
"""
import z3
from engine import Agg, EnumV, Ref, VecV, Cell, SymStr, Opq, Unsupported
from models import some, none, IdentV, GenericsV, MEMBER, OPT
from tokens import TS, TOpq, TIdent, TLit, TPunct

KINDS = ['OwnedInto', 'RefInto', 'FromOwned', 'FromRef', 'OwnedIntoExisting', 'RefIntoExisting']
HINTS = ['Unit', 'Struct', 'Tuple', 'Unspecified']

MEMBER_MAP_NAMES = ['owned_into', 'ref_into', 'into', 'from_owned', 'from_ref', 'from', 'map_owned', 'map_ref', 'map',
                    'owned_into_existing', 'ref_into_existing', 'into_existing',
                    'owned_try_into', 'ref_try_into', 'try_into', 'try_from_owned', 'try_from_ref', 'try_from',
                    'try_map_owned', 'try_map_ref', 'try_map']
TRAIT_NAMES = MEMBER_MAP_NAMES + ['owned_try_into_existing', 'ref_try_into_existing', 'try_into_existing']


class B:
    def __init__(self, engine):
        self.e = engine
        self.n = 0

    # ---- generic
    def mk(self, _ty, **kw):
        ty = _ty
        names = self.e.structs.get(ty)
        if names is None:
            raise Unsupported('builder: unknown struct ' + ty)
        extra = set(kw) - set(names)
        if extra:
            raise Unsupported('builder: %s has no field(s) %s' % (ty, sorted(extra)))
        missing = [n for n in names if n not in kw]
        if missing:
            raise Unsupported('builder: %s needs value(s) for new field(s) %s' % (ty, missing))
        return Agg(ty, [kw[n] for n in names])

    def enum(self, ty, variant, *payload):
        names = self.e.enums[ty]
        idx = names.index(variant)
        return EnumV(ty, idx, {idx: list(payload)} if payload else {})

    def sym_enum(self, ty, d, payloads=None):
        """enum with a symbolic discriminant; caller constrains d's range"""
        return EnumV(ty, d, payloads or {})

    def opt(self, present, value):
        """Option with python-bool or z3-Bool presence"""
        if present is True:
            return some(value)
        if present is False:
            return none()
        return EnumV(OPT, z3.If(present, 1, 0), {1: [value]})

    def fresh_bool(self, name):
        return self.e.fresh(name, 'bool')

    def fresh_int(self, name, lo, hi, assume=True):
        v = self.e.fresh(name)
        if assume:
            self.e.assume(z3.And(v >= lo, v <= hi))
        return v

    # ---- leaves
    def leaf(self, cat, id):
        return TS([TOpq(cat, id)])

    def ident(self, name, origin=None):
        return IdentV(name, Opq('Span', 'id:' + str(name)), origin if origin is not None else 'user')

    def named(self, name):
        return EnumV(MEMBER, 0, {0: [self.ident(name)]})

    def unnamed(self, idx):
        return EnumV(MEMBER, 1, {1: [Agg('syn::Index', [idx, Opq('Span', 'idx:%s' % idx)])]})

    def span(self, tag):
        return Opq('Span', tag)

    def kind(self, k):
        return EnumV('attr::Kind', KINDS.index(k) if isinstance(k, str) else k, {})

    def hint(self, h):
        return EnumV('attr::TypeHint', HINTS.index(h) if isinstance(h, str) else h, {})

    def type_path(self, path_str, tokens=None, nameless_tuple=False, generics=None):
        """path_str: python str or SymStr"""
        if tokens is None:
            tokens = TS([TOpq('path', path_str if isinstance(path_str, str) else str(path_str.atom))])
        return self.mk('attr::TypePath', span=self.span('tp:%s' % (path_str if isinstance(path_str, str) else path_str.atom,)),
                       path=tokens, path_str=path_str, generics=generics if generics is not None else none(),
                       nameless_tuple=nameless_tuple)

    def appl(self, bits):
        return Agg('[]', list(bits))

    def syn_path(self, id):
        return Opq('Path', id, TS([TOpq('path', id)]))
