"""Library models (trusted base): std / quote / proc-macro2 / syn functions the crate calls.

Each model is a small python function (engine, args, info) -> value.  `info` is
(self_type, trait, method, method_generics, callee) for `<T as Trait>::m` calls and
(bare_name, callee) otherwise.  Models that must look at a symbolic discriminant fork through
engine.concretize / engine.branch, so every path still ends with concrete control flow.
"""
import re
import z3
from engine import (Agg, Clo, EnumV, Ref, VecV, Wrap, FnItem, SymStr, FmtStr, Opq, Cell, Unsupported, Panic,
                    clone_val, is_sym, EXT_ENUM_DISCR)
from mir import strip_generics, split_qualified, split_top
from tokens import TS, TIdent, TPunct, TLit, TGroup, TOpq, TSymTok, ts_to_string, tokenize, DELIMS

OPT = 'std::option::Option'
RES = 'std::result::Result'
CF = 'std::ops::ControlFlow'
ORD = 'std::cmp::Ordering'
MEMBER = 'syn::Member'
TT = 'proc_macro2::TokenTree'
DELIM = 'proc_macro2::Delimiter'


def some(x):
    return EnumV(OPT, 1, {1: [x]})


def none():
    return EnumV(OPT, 0, {})


def ok(x):
    return EnumV(RES, 0, {0: [x]})


def err(x):
    return EnumV(RES, 1, {1: [x]})


def unit():
    return Agg(None, [])


EXACT = {}      # bare name -> fn
TRAIT = {}      # (trait last segment, method) -> fn
PREFIX = []     # (bare-name prefix regex, fn)


def exact(*names):
    def deco(fn):
        for n in names:
            EXACT[n] = fn
        return fn
    return deco


def trait(tr, *meths):
    def deco(fn):
        for m in meths:
            TRAIT[(tr, m)] = fn
        return fn
    return deco


def lookup(engine, callee, bare):
    q = split_qualified(callee)
    if q:
        ty, tr, meth, mg = q
        trn = strip_generics(tr).split('::')[-1]
        fn = TRAIT.get((trn, meth))
        if fn is not None:
            return fn, ('q', ty, tr, meth, mg, callee)
        return None
    fn = EXACT.get(bare)
    if fn is not None:
        return fn, ('b', bare, callee)
    for pat, fn in PREFIX:
        if pat.match(bare):
            return fn, ('b', bare, callee)
    return None


def install(engine):
    engine.hash_order = 'insertion'


def const_model(engine, s):
    if s.startswith('std::iter::Empty::<'):
        return EmptyIt()
    if s.startswith('quote::__private::HasIterator'):
        return Agg('quote::__private::HasIterator', [])
    if s.startswith('std::marker::PhantomData'):
        return Agg(None, [])
    if s.startswith(('syn::token::', 'kw::', 'syn::Ident', 'proc_macro2::Ident', 'syn::LitInt', 'syn::Lit')):
        return FnItem(s)      # token constructor used as a Peek marker
    return NotImplemented


def struct_model(engine, ty, vals):
    return NotImplemented


# =========================================================================== iterators

class Stop:
    pass


STOP = Stop()


class It:
    def next(self, e):
        raise NotImplementedError

    def clone(self):
        # an iterator adaptor is its position plus immutable parts (closures, source cells): copy the state, clone nested iterators
        import copy
        c = copy.copy(self)
        for k, v in list(vars(c).items()):
            if isinstance(v, It):
                setattr(c, k, v.clone())
            elif isinstance(v, list):
                setattr(c, k, list(v))
            elif isinstance(v, Cell) and k == 'peeked':
                setattr(c, k, Cell(v.v))
        return c


class SliceIt(It):
    def __init__(self, cell, proj, n):
        self.cell, self.proj, self.n, self.i = cell, proj, n, 0

    def next(self, e):
        if self.i >= self.n:
            return STOP
        r = Ref(self.cell, self.proj + (('f', self.i),))
        self.i += 1
        return r

    def clone(self):
        c = SliceIt(self.cell, self.proj, self.n); c.i = self.i
        return c


class ListIt(It):
    """owning iterator (vec::IntoIter, punctuated::IntoIter, hash iteration snapshot)"""

    def __init__(self, items):
        self.items, self.i = items, 0

    def next(self, e):
        if self.i >= len(self.items):
            return STOP
        v = self.items[self.i]
        self.i += 1
        return v


class FilterIt(It):
    def __init__(self, inner, clo):
        self.inner, self.clo = inner, clo

    def next(self, e):
        while True:
            x = self.inner.next(e)
            if x is STOP:
                return STOP
            r = e.call_closure(self.clo, [Ref(Cell(x))])
            if e.branch(r):
                return x


class MapIt(It):
    def __init__(self, inner, clo):
        self.inner, self.clo = inner, clo

    def next(self, e):
        x = self.inner.next(e)
        if x is STOP:
            return STOP
        return e.call_closure(self.clo, [x])


class FilterMapIt(It):
    def __init__(self, inner, clo):
        self.inner, self.clo = inner, clo

    def next(self, e):
        while True:
            x = self.inner.next(e)
            if x is STOP:
                return STOP
            r = e.call_closure(self.clo, [x])
            d = e.concretize(r.d, [0, 1])
            if d == 1:
                return r.p[1][0]


class FlatMapIt(It):
    def __init__(self, inner, clo):
        self.inner, self.clo, self.cur = inner, clo, None

    def next(self, e):
        while True:
            if self.cur is not None:
                x = self.cur.next(e)
                if x is not STOP:
                    return x
                self.cur = None
            y = self.inner.next(e)
            if y is STOP:
                return STOP
            self.cur = to_iter(e, e.call_closure(self.clo, [y]))


class ChainIt(It):
    def __init__(self, a, b):
        self.a, self.b = a, b

    def next(self, e):
        if self.a is not None:
            x = self.a.next(e)
            if x is not STOP:
                return x
            self.a = None
        return self.b.next(e)


class EnumerateIt(It):
    def __init__(self, inner):
        self.inner, self.i = inner, 0

    def next(self, e):
        x = self.inner.next(e)
        if x is STOP:
            return STOP
        r = Agg(None, [self.i, x])
        self.i += 1
        return r


class PeekIt(It):
    def __init__(self, inner):
        self.inner, self.peeked = inner, None      # peeked: None | Cell holding Option

    def next(self, e):
        if self.peeked is not None:
            c = self.peeked
            self.peeked = None
            v = c.v
            return STOP if v.d == 0 else v.p[1][0]
        return self.inner.next(e)

    def peek(self, e):
        if self.peeked is None:
            x = self.inner.next(e)
            self.peeked = Cell(none() if x is STOP else some(x))
        return self.peeked


class EmptyIt(It):
    def next(self, e):
        return STOP


def container_len(v):
    if isinstance(v, VecV):
        return len(v.items)
    if isinstance(v, Agg):
        return len(v.f)
    raise Unsupported('len of %r' % (v,))


def to_iter(e, v):
    """IntoIterator::into_iter for every shape the crate uses"""
    if isinstance(v, It):
        return v
    if isinstance(v, Ref):
        t = e.load(v.cell, v.proj)
        if isinstance(t, It):
            return t
        if isinstance(t, Ref):
            return to_iter(e, t)
        if isinstance(t, (VecV, Agg)):
            return SliceIt(v.cell, v.proj, container_len(t))
        if isinstance(t, SetV):
            return ListIt([Ref(Cell(x)) for x in t.ordered(e)])
        if isinstance(t, MapV):
            return ListIt([Agg(None, [Ref(Cell(k)), Ref(Cell(x))]) for k, x in t.ordered(e)])
        if isinstance(t, EnumV) and t.ty == OPT:
            d = e.concretize(t.d, [0, 1])
            return ListIt([Ref(v.cell, v.proj + (('v', 'Some'), ('f', 0)))] if d == 1 else [])
        raise Unsupported('into_iter of &%r' % (t,))
    if isinstance(v, VecV):
        return ListIt(list(v.items))
    if isinstance(v, Agg):
        return ListIt(list(v.f))
    if isinstance(v, EnumV) and v.ty == OPT:
        d = e.concretize(v.d, [0, 1])
        return ListIt([v.p[1][0]] if d == 1 else [])
    if isinstance(v, TS):
        return ListIt([tok_to_tree(e, t) for t in v.items])
    if isinstance(v, MapV):
        return ListIt([Agg(None, [k, x]) for k, x in v.ordered(e)])
    if isinstance(v, SetV):
        return ListIt(list(v.ordered(e)))
    raise Unsupported('into_iter of %r' % (v,))


def the_iter(e, a):
    """receiver of an Iterator method: by value or &mut"""
    if isinstance(a, It):
        return a
    if isinstance(a, Ref):
        t = e.load(a.cell, a.proj)
        if isinstance(t, It):
            return t
        return the_iter(e, t)
    raise Unsupported('not an iterator: %r' % (a,))


def opt_of(x):
    return none() if x is STOP else some(x)


@trait('IntoIterator', 'into_iter')
def m_into_iter(e, args, info):
    return to_iter(e, args[0])


@trait('Iterator', 'next')
def m_next(e, args, info):
    return opt_of(the_iter(e, args[0]).next(e))


@trait('Iterator', 'filter')
def m_filter(e, args, info):
    return FilterIt(the_iter(e, args[0]), args[1])


@trait('Iterator', 'map')
def m_map(e, args, info):
    return MapIt(the_iter(e, args[0]), args[1])


@trait('Iterator', 'filter_map')
def m_filter_map(e, args, info):
    return FilterMapIt(the_iter(e, args[0]), args[1])


@trait('Iterator', 'flat_map')
def m_flat_map(e, args, info):
    return FlatMapIt(the_iter(e, args[0]), args[1])


@trait('Iterator', 'chain')
def m_chain(e, args, info):
    return ChainIt(the_iter(e, args[0]), to_iter(e, args[1]))


@trait('Iterator', 'enumerate')
def m_enumerate(e, args, info):
    return EnumerateIt(the_iter(e, args[0]))


@trait('Iterator', 'peekable')
def m_peekable(e, args, info):
    return PeekIt(the_iter(e, args[0]))


@exact('std::iter::Peekable::peek')
def m_peek(e, args, info):
    it = the_iter(e, args[0])
    c = it.peek(e)
    v = c.v
    if v.d == 0:
        return none()
    return some(Ref(c, (('v', 'Some'), ('f', 0))))


@exact('std::iter::empty')
def m_empty(e, args, info):
    return EmptyIt()


@trait('Iterator', 'find')
def m_find(e, args, info):
    it = the_iter(e, args[0])
    while True:
        x = it.next(e)
        if x is STOP:
            return none()
        if e.branch(e.call_closure(args[1], [Ref(Cell(x))])):
            return some(x)


@trait('Iterator', 'any')
def m_any(e, args, info):
    it = the_iter(e, args[0])
    while True:
        x = it.next(e)
        if x is STOP:
            return False
        if e.branch(e.call_closure(args[1], [x])):
            return True


@trait('Iterator', 'all')
def m_all(e, args, info):
    it = the_iter(e, args[0])
    while True:
        x = it.next(e)
        if x is STOP:
            return True
        if not e.branch(e.call_closure(args[1], [x])):
            return False


@trait('Iterator', 'position')
def m_position(e, args, info):
    it = the_iter(e, args[0])
    i = 0
    while True:
        x = it.next(e)
        if x is STOP:
            return none()
        if e.branch(e.call_closure(args[1], [x])):
            return some(i)
        i += 1


@trait('Iterator', 'count')
def m_count(e, args, info):
    it = the_iter(e, args[0])
    n = 0
    while it.next(e) is not STOP:
        n += 1
    return n


@trait('Iterator', 'for_each')
def m_for_each(e, args, info):
    it = the_iter(e, args[0])
    while True:
        x = it.next(e)
        if x is STOP:
            return unit()
        e.call_closure(args[1], [x])


@trait('Iterator', 'fold')
def m_fold(e, args, info):
    it = the_iter(e, args[0])
    acc = args[1]
    while True:
        x = it.next(e)
        if x is STOP:
            return acc
        acc = e.call_closure(args[2], [acc, x])


@trait('Iterator', 'collect')
def m_collect(e, args, info):
    it = the_iter(e, args[0])
    target = info[4] or ''
    items = []
    while True:
        x = it.next(e)
        if x is STOP:
            break
        items.append(x)
    if target.startswith('std::collections::HashSet'):
        s = SetV()
        for x in items:
            s.insert(e, x)
        return s
    if target.startswith('std::string::String'):
        return ''.join(chr(c) if isinstance(c, int) else c for c in items)
    if target.startswith('std::result::Result'):
        out = []
        for r in items:
            d = e.concretize(r.d, [0, 1])
            if d == 1:
                return err(r.p[1][0])
            out.append(r.p[0][0])
        return ok(VecV(out))
    if target.startswith('proc_macro2::TokenStream'):
        ts = TS()
        for x in items:
            to_tokens(e, x, ts)
        return ts
    if target.startswith('std::collections::HashMap'):
        mp = MapV()
        for x in items:
            ent = mp.find(e, x.f[0])
            if ent is not None:
                ent[1] = x.f[1]
            else:
                mp.entries.append([x.f[0], x.f[1]])
        return mp
    if target.startswith('std::vec::Vec'):
        return VecV(items)
    raise Unsupported('collect into ' + target)


# =========================================================================== Option / Result / bool

def opt_d(e, o):
    return e.concretize(o.d, [0, 1])


@exact('std::option::Option::is_some')
def m_is_some(e, args, info):
    o = e.deref(args[0])
    return (o.d == 1)


@exact('std::option::Option::is_none')
def m_is_none(e, args, info):
    o = e.deref(args[0])
    return (o.d == 0)


@exact('std::option::Option::as_ref', 'std::option::Option::as_mut')
def m_as_ref(e, args, info):
    r = args[0]
    o = e.load(r.cell, r.proj)
    if isinstance(o.d, int) and o.d == 0:
        return none()
    return EnumV(OPT, o.d, {1: [Ref(r.cell, r.proj + (('v', 'Some'), ('f', 0)))]})


@exact('std::option::Option::iter')
def m_opt_iter(e, args, info):
    r = args[0]
    o = e.load(r.cell, r.proj)
    if opt_d(e, o) == 0:
        return ListIt([])
    return ListIt([Ref(r.cell, r.proj + (('v', 'Some'), ('f', 0)))])


@exact('std::option::Option::map')
def m_opt_map(e, args, info):
    o = args[0]
    if opt_d(e, o) == 0:
        return none()
    return some(e.call_closure(args[1], [o.p[1][0]]))


@exact('std::option::Option::and_then')
def m_and_then(e, args, info):
    o = args[0]
    if opt_d(e, o) == 0:
        return none()
    return e.call_closure(args[1], [o.p[1][0]])


@exact('std::option::Option::map_or')
def m_map_or(e, args, info):
    o = args[0]
    if opt_d(e, o) == 0:
        return args[1]
    return e.call_closure(args[2], [o.p[1][0]])


@exact('std::option::Option::is_some_and')
def m_is_some_and(e, args, info):
    o = args[0]
    if opt_d(e, o) == 0:
        return False
    return e.call_closure(args[1], [o.p[1][0]])


@exact('std::option::Option::or')
def m_or(e, args, info):
    o = args[0]
    if opt_d(e, o) == 1:
        return o
    return args[1]


@exact('std::option::Option::or_else')
def m_or_else(e, args, info):
    o = args[0]
    if opt_d(e, o) == 1:
        return o
    return e.call_closure(args[1], [])


@exact('std::option::Option::unwrap', 'std::option::Option::expect')
def m_unwrap(e, args, info):
    o = args[0]
    if opt_d(e, o) == 0:
        raise Panic('called `Option::unwrap()` on a `None` value')
    return o.p[1][0]


@exact('std::option::Option::unwrap_or')
def m_unwrap_or(e, args, info):
    o = args[0]
    if opt_d(e, o) == 0:
        return args[1]
    return o.p[1][0]


@exact('std::option::Option::unwrap_or_else')
def m_unwrap_or_else(e, args, info):
    o = args[0]
    if opt_d(e, o) == 0:
        return e.call_closure(args[1], [])
    return o.p[1][0]


@exact('std::option::Option::unwrap_or_default')
def m_unwrap_or_default(e, args, info):
    o = args[0]
    if opt_d(e, o) == 0:
        ty = info[2]
        if 'Vec<' in ty:
            return VecV([])
        raise Unsupported('unwrap_or_default for ' + ty)
    return o.p[1][0]


@exact('std::option::Option::transpose')
def m_transpose(e, args, info):
    o = args[0]
    if opt_d(e, o) == 0:
        return ok(none())
    r = o.p[1][0]
    if e.concretize(r.d, [0, 1]) == 0:
        return ok(some(r.p[0][0]))
    return err(r.p[1][0])


@exact('std::option::Option::ok_or')
def m_ok_or(e, args, info):
    o = args[0]
    if opt_d(e, o) == 0:
        return err(args[1])
    return ok(o.p[1][0])


@exact('std::result::Result::is_ok')
def m_is_ok(e, args, info):
    return e.deref(args[0]).d == 0


@exact('std::result::Result::ok')
def m_res_ok(e, args, info):
    r = args[0]
    if e.concretize(r.d, [0, 1]) == 0:
        return some(r.p[0][0])
    return none()


@exact('std::result::Result::map')
def m_res_map(e, args, info):
    r = args[0]
    if e.concretize(r.d, [0, 1]) == 0:
        return ok(e.call_closure(args[1], [r.p[0][0]]))
    return r


@exact('std::result::Result::unwrap')
def m_res_unwrap(e, args, info):
    r = args[0]
    if e.concretize(r.d, [0, 1]) == 1:
        raise Panic('called `Result::unwrap()` on an `Err` value')
    return r.p[0][0]


@trait('Try', 'branch')
def m_branch(e, args, info):
    r = args[0]
    if r.ty == RES:
        if e.concretize(r.d, [0, 1]) == 0:
            return EnumV(CF, 0, {0: [r.p[0][0]]})
        return EnumV(CF, 1, {1: [err(r.p[1][0])]})
    if r.ty == OPT:
        if e.concretize(r.d, [0, 1]) == 1:
            return EnumV(CF, 0, {0: [r.p[1][0]]})
        return EnumV(CF, 1, {1: [none()]})
    raise Unsupported('Try::branch on ' + r.ty)


@trait('FromResidual', 'from_residual')
def m_from_residual(e, args, info):
    r = args[0]
    if r.ty == RES:
        return err(r.p[1][0])
    return none()


@exact('core::bool::then_some')
def m_then_some(e, args, info):
    return some(args[1]) if e.branch(args[0]) else none()


@exact('core::bool::then')
def m_then(e, args, info):
    return some(e.call_closure(args[1], [])) if e.branch(args[0]) else none()


@trait('Not', 'not')
def m_not(e, args, info):
    a = e.deref(args[0])
    return (not a) if isinstance(a, bool) else z3.Not(a)


@trait('Default', 'default')
def m_default(e, args, info):
    ty = info[1]
    if ty.startswith('std::vec::Vec'):
        return VecV([])
    if ty.startswith('std::option::Option'):
        return none()
    if ty == 'bool':
        return False
    if ty.startswith('syn::Generics'):
        return GenericsV([], None)
    if ty.startswith('std::collections::HashMap'):
        return MapV()
    raise Unsupported('Default for ' + ty)


@trait('Clone', 'clone')
def m_clone(e, args, info):
    return clone_val(e.deref1(args[0]))


@exact('std::hint::must_use', 'std::convert::identity')
def m_identity(e, args, info):
    return args[0]


@exact('std::mem::drop')
def m_drop(e, args, info):
    return unit()


# =========================================================================== Fn traits

@trait('Fn', 'call')
@trait('FnMut', 'call_mut')
@trait('FnOnce', 'call_once')
def m_call(e, args, info):
    tup = args[1]
    clo = args[0]
    if e.deref(clo) is None and info[1].lstrip('&').startswith('{closure@'):
        clo = Clo(info[1].lstrip('&').replace('mut ', ''), [])        # capture-less (zero-sized) closure: MIR never initialises the local
    return e.call_closure(clo, list(tup.f))



# ---- further adaptors (not used by the crate today; modelled so that a plausible edit of the crate stays executable)
class SkipIt(It):
    def __init__(self, inner, n):
        self.inner, self.n = inner, n

    def next(self, e):
        while self.n > 0:
            self.n -= 1
            if self.inner.next(e) is STOP:
                return STOP
        return self.inner.next(e)


class TakeIt(It):
    def __init__(self, inner, n):
        self.inner, self.n = inner, n

    def next(self, e):
        if self.n <= 0:
            return STOP
        self.n -= 1
        return self.inner.next(e)


class WhileIt(It):
    """skip_while (skip=True) / take_while (skip=False)"""

    def __init__(self, inner, clo, skip):
        self.inner, self.clo, self.skip, self.done = inner, clo, skip, False

    def next(self, e):
        if self.skip:
            while not self.done:
                x = self.inner.next(e)
                if x is STOP:
                    return STOP
                if not e.branch(e.call_closure(self.clo, [Ref(Cell(x))])):
                    self.done = True
                    return x
            return self.inner.next(e)
        if self.done:
            return STOP
        x = self.inner.next(e)
        if x is STOP:
            return STOP
        if not e.branch(e.call_closure(self.clo, [Ref(Cell(x))])):
            self.done = True
            return STOP
        return x


class ZipIt(It):
    def __init__(self, a, b):
        self.a, self.b = a, b

    def next(self, e):
        x = self.a.next(e)
        if x is STOP:
            return STOP
        y = self.b.next(e)
        if y is STOP:
            return STOP
        return Agg(None, [x, y])


def _int_arg(v, what):
    if not isinstance(v, int):
        raise Unsupported('symbolic count in ' + what)
    return v


def _drain(e, it):
    out = []
    while True:
        x = it.next(e)
        if x is STOP:
            return out
        out.append(x)


@trait('Iterator', 'skip')
def m_it_skip(e, args, info):
    return SkipIt(the_iter(e, args[0]), _int_arg(args[1], 'skip'))


@trait('Iterator', 'take')
def m_it_take(e, args, info):
    return TakeIt(the_iter(e, args[0]), _int_arg(args[1], 'take'))


@trait('Iterator', 'skip_while')
def m_it_skip_while(e, args, info):
    return WhileIt(the_iter(e, args[0]), args[1], True)


@trait('Iterator', 'take_while')
def m_it_take_while(e, args, info):
    return WhileIt(the_iter(e, args[0]), args[1], False)


@trait('Iterator', 'zip')
def m_it_zip(e, args, info):
    return ZipIt(the_iter(e, args[0]), to_iter(e, args[1]))


@trait('Iterator', 'rev')
@trait('DoubleEndedIterator', 'rev')
def m_it_rev(e, args, info):
    return ListIt(list(reversed(_drain(e, the_iter(e, args[0])))))


@trait('Iterator', 'last')
def m_it_last(e, args, info):
    xs = _drain(e, the_iter(e, args[0]))
    return some(xs[-1]) if xs else none()


@trait('Iterator', 'nth')
def m_it_nth(e, args, info):
    it = the_iter(e, args[0])
    n = _int_arg(args[1], 'nth')
    x = STOP
    for _ in range(n + 1):
        x = it.next(e)
        if x is STOP:
            return none()
    return some(x)


@trait('Iterator', 'find_map')
def m_it_find_map(e, args, info):
    it = the_iter(e, args[0])
    while True:
        x = it.next(e)
        if x is STOP:
            return none()
        r = e.call_closure(args[1], [x])
        if opt_d(e, r) == 1:
            return r


@trait('Iterator', 'cloned')
@trait('Iterator', 'copied')
def m_it_cloned(e, args, info):
    from engine import clone_val
    return ListIt([clone_val(e.deref(x)) if isinstance(x, Ref) else x for x in _drain(e, the_iter(e, args[0]))])


@exact('std::option::Option::filter')
def m_opt_filter(e, args, info):
    o = args[0]
    if opt_d(e, o) == 0:
        return none()
    if e.branch(e.call_closure(args[1], [Ref(Cell(o.p[1][0]))])):
        return o
    return none()


@exact('std::option::Option::map_or_else')
def m_opt_map_or_else(e, args, info):
    o = args[0]
    if opt_d(e, o) == 0:
        return e.call_closure(args[1], [])
    return e.call_closure(args[2], [o.p[1][0]])


@exact('std::option::Option::and')
def m_opt_and(e, args, info):
    return none() if opt_d(e, args[0]) == 0 else args[1]


@exact('std::option::Option::xor')
def m_opt_xor(e, args, info):
    a, b = opt_d(e, args[0]), opt_d(e, args[1])
    if a == 1 and b == 0:
        return args[0]
    if a == 0 and b == 1:
        return args[1]
    return none()


@exact('std::option::Option::zip')
def m_opt_zip(e, args, info):
    if opt_d(e, args[0]) == 0 or opt_d(e, args[1]) == 0:
        return none()
    return some(Agg(None, [args[0].p[1][0], args[1].p[1][0]]))


@exact('std::option::Option::ok_or_else')
def m_opt_ok_or_else(e, args, info):
    o = args[0]
    if opt_d(e, o) == 0:
        return err(e.call_closure(args[1], []))
    return ok(o.p[1][0])


@exact('std::option::Option::is_none_or')
def m_opt_is_none_or(e, args, info):
    o = args[0]
    if opt_d(e, o) == 0:
        return True
    return e.call_closure(args[1], [o.p[1][0]])


@exact('std::option::Option::cloned', 'std::option::Option::copied')
def m_opt_cloned(e, args, info):
    from engine import clone_val
    o = args[0]
    if opt_d(e, o) == 0:
        return none()
    x = o.p[1][0]
    return some(clone_val(e.deref(x)) if isinstance(x, Ref) else x)


@exact('std::option::Option::flatten')
def m_opt_flatten(e, args, info):
    o = args[0]
    if opt_d(e, o) == 0:
        return none()
    return o.p[1][0]


@exact('core::slice::first', 'syn::punctuated::Punctuated::first', 'syn::punctuated::Punctuated::first_mut', 'core::slice::first_mut')
def m_slice_first(e, args, info):
    r = args[0]
    t = e.deref(r)
    while isinstance(e.load(r.cell, r.proj), Ref):
        r = e.load(r.cell, r.proj)
    if container_len(t) == 0:
        return none()
    return some(Ref(r.cell, r.proj + (('f', 0),)))


@exact('syn::Fields::len')
def m_fields_len(e, args, info):
    f = e.deref(args[0])
    if f.d == 2:
        return 0
    return len(f.p[f.d][0].f[1].items)


@exact('syn::Fields::is_empty')
def m_fields_is_empty(e, args, info):
    return m_fields_len(e, args, info) == 0


@exact('syn::punctuated::Punctuated::len')
def m_punct_len(e, args, info):
    return container_len(e.deref(args[0]))


@exact('std::iter::once')
def m_iter_once(e, args, info):
    return ListIt([args[0]])


@exact('std::vec::Vec::with_capacity')
def m_vec_with_capacity(e, args, info):
    return VecV([])


@exact('std::string::String::with_capacity')
def m_string_with_capacity(e, args, info):
    return ''


@exact('std::vec::Vec::pop')
def m_vec_pop(e, args, info):
    v = e.deref(args[0])
    return some(v.items.pop()) if v.items else none()


@exact('std::vec::Vec::clear')
def m_vec_clear(e, args, info):
    del e.deref(args[0]).items[:]
    return unit()


@exact('std::vec::Vec::insert')
def m_vec_insert(e, args, info):
    e.deref(args[0]).items.insert(_int_arg(args[1], 'Vec::insert'), args[2])
    return unit()


@exact('std::vec::Vec::remove')
def m_vec_remove(e, args, info):
    v = e.deref(args[0])
    i = _int_arg(args[1], 'Vec::remove')
    if i >= len(v.items):
        raise Panic('removal index out of bounds')
    return v.items.pop(i)


@exact('std::vec::Vec::truncate')
def m_vec_truncate(e, args, info):
    del e.deref(args[0]).items[_int_arg(args[1], 'Vec::truncate'):]
    return unit()


@exact('core::slice::get', 'std::vec::Vec::get')
def m_slice_get(e, args, info):
    r = args[0]
    t = e.deref(r)
    while isinstance(e.load(r.cell, r.proj), Ref):
        r = e.load(r.cell, r.proj)
    i = _int_arg(args[1], 'slice::get')
    if i >= container_len(t):
        return none()
    return some(Ref(r.cell, r.proj + (('f', i),)))


@exact('core::slice::contains')
def m_slice_contains(e, args, info):
    t = e.deref(args[0])
    for x in (t.items if isinstance(t, VecV) else t.f):
        r = m_eq(e, [x, args[1]], info)
        if r if isinstance(r, bool) else e.branch(r):
            return True
    return False


@exact('std::option::Option::take')
def m_opt_take(e, args, info):
    r = args[0]
    cur = e.load(r.cell, r.proj)
    e.store(r.cell, r.proj, none())
    return cur


@exact('std::option::Option::replace', 'std::option::Option::insert')
def m_opt_replace(e, args, info):
    r = args[0]
    cur = e.load(r.cell, r.proj)
    e.store(r.cell, r.proj, some(args[1]))
    return cur if info[-1].endswith('replace') or '::replace' in info[-1] else Ref(r.cell, r.proj + (('v', 'Some'), ('f', 0)))


@exact('std::mem::take')
def m_mem_take(e, args, info):
    r = args[0]
    cur = e.load(r.cell, r.proj)
    if isinstance(cur, VecV):
        e.store(r.cell, r.proj, VecV([]))
    elif isinstance(cur, str):
        e.store(r.cell, r.proj, '')
    elif isinstance(cur, EnumV) and cur.ty == OPT:
        e.store(r.cell, r.proj, none())
    else:
        raise Unsupported('mem::take of %r' % (cur,))
    return cur


@exact('std::mem::replace')
def m_mem_replace(e, args, info):
    r = args[0]
    cur = e.load(r.cell, r.proj)
    e.store(r.cell, r.proj, args[1])
    return cur

# =========================================================================== Vec / slices / Punctuated

@exact('std::vec::Vec::new', 'syn::punctuated::Punctuated::new')
def m_vec_new(e, args, info):
    return VecV([])


@exact('std::vec::Vec::push', 'syn::punctuated::Punctuated::push')
def m_vec_push(e, args, info):
    e.deref(args[0]).items.append(args[1])
    return unit()


@exact('std::vec::Vec::len')
def m_vec_len(e, args, info):
    return container_len(e.deref(args[0]))


@exact('std::vec::Vec::is_empty', 'syn::punctuated::Punctuated::is_empty')
def m_vec_is_empty(e, args, info):
    return container_len(e.deref(args[0])) == 0


@trait('Deref', 'deref')
@trait('DerefMut', 'deref_mut')
def m_deref(e, args, info):
    ty = info[1]
    if ty.startswith(('std::vec::Vec', 'std::string::String')):
        return args[0]
    raise Unsupported('Deref for ' + ty)


@trait('AsRef', 'as_ref')
def m_as_ref_trait(e, args, info):
    return args[0]


@exact('std::string::String::as_str')
def m_as_str(e, args, info):
    return args[0]


@exact('core::slice::iter', 'syn::punctuated::Punctuated::iter')
def m_slice_iter(e, args, info):
    r = args[0]
    while True:
        t = e.load(r.cell, r.proj)
        if isinstance(t, Ref):
            r = t
        else:
            break
    return SliceIt(r.cell, r.proj, container_len(t))


@exact('core::slice::last', 'syn::punctuated::Punctuated::last', 'syn::punctuated::Punctuated::last_mut')
def m_slice_last(e, args, info):
    r = args[0]
    t = e.deref(r)
    while isinstance(e.load(r.cell, r.proj), Ref):
        r = e.load(r.cell, r.proj)
    n = container_len(t)
    if n == 0:
        return none()
    return some(Ref(r.cell, r.proj + (('f', n - 1),)))


@trait('Index', 'index')
def m_index(e, args, info):
    r = args[0]
    while isinstance(e.load(r.cell, r.proj), Ref):
        r = e.load(r.cell, r.proj)
    t = e.load(r.cell, r.proj)
    i = args[1]
    if not isinstance(i, int):
        raise Unsupported('symbolic index')
    if i >= container_len(t):
        raise Panic('index out of bounds')
    return Ref(r.cell, r.proj + (('f', i),))


@trait('Extend', 'extend')
def m_extend(e, args, info):
    v = e.deref(args[0])
    it = to_iter(e, args[1])
    while True:
        x = it.next(e)
        if x is STOP:
            return unit()
        v.items.append(x)


def concretize_str(e, s):
    """a concrete python string for a (possibly symbolic) string value; forks on the symbolic pieces"""
    if isinstance(s, str):
        return s
    if isinstance(s, SymStr):
        return s.uni[e.concretize(s.atom, list(range(len(s.uni))))]
    if isinstance(s, FmtStr):
        return ''.join(concretize_str(e, p) for p in s.parts)
    raise Unsupported('string value %r' % (s,))


@trait('Ord', 'cmp')
def m_cmp(e, args, info):
    a, b = e.deref(args[0]), e.deref(args[1])
    if isinstance(a, int) and isinstance(b, int):
        return EnumV(ORD, (a > b) - (a < b), {})
    if isinstance(a, (str, SymStr, FmtStr)) and isinstance(b, (str, SymStr, FmtStr)):
        x, y = concretize_str(e, a), concretize_str(e, b)
        return EnumV(ORD, (x > y) - (x < y), {})
    if isinstance(a, VecV) and isinstance(b, VecV) and all(isinstance(x, int) for x in a.items + b.items):
        x, y = list(a.items), list(b.items)
        return EnumV(ORD, (x > y) - (x < y), {})
    raise Unsupported('symbolic cmp')


@exact('std::slice::sort_by')
def m_sort_by(e, args, info):
    r = args[0]
    v = e.deref(r)
    items = v.items if isinstance(v, VecV) else v.f
    clo = args[1]
    # stable insertion sort through the user's comparator
    out = []
    for x in items:
        pos = len(out)
        while pos > 0:
            o = e.call_closure(clo, [Ref(Cell(out[pos - 1])), Ref(Cell(x))])
            d = o.d
            if not isinstance(d, int):
                raise Unsupported('symbolic ordering in sort_by')
            if d == 1:
                pos -= 1
            else:
                break
        out.insert(pos, x)
    items[:] = out
    return unit()


@exact('std::slice::join')
def m_join(e, args, info):
    v = e.deref(args[0])
    items = v.items if isinstance(v, VecV) else v.f
    sep = e.deref(args[1])
    return sep.join(e.deref(x) for x in items)


@exact('std::boxed::Box::new_uninit')
def m_box_new_uninit(e, args, info):
    return Wrap(None)


@exact('std::boxed::box_assume_init_into_vec_unsafe')
def m_box_into_vec(e, args, info):
    w = args[0]
    while isinstance(w, Wrap):
        w = w.v
    return VecV(list(w.f))


# =========================================================================== HashMap / HashSet

def val_eq(e, a, b):
    """semantic == for hash keys; python bool or z3 Bool"""
    a, b = e.deref(a), e.deref(b)
    if isinstance(a, (str, SymStr, FmtStr)) or isinstance(b, (str, SymStr, FmtStr)):
        return str_eq(a, b)
    if isinstance(a, Agg) and isinstance(b, Agg):
        if a.ty and (a.ty, 'PartialEq', 'eq') in e.trait_impls:
            return e.call_fn(e.trait_impls[(a.ty, 'PartialEq', 'eq')][0][1], [Ref(Cell(a)), Ref(Cell(b))])
        conds = [val_eq(e, x, y) for x, y in zip(a.f, b.f)]
        if all(c is True for c in conds):
            return True
        if any(c is False for c in conds):
            return False
        return z3.And([c for c in conds if c is not True])
    if isinstance(a, EnumV) or isinstance(b, EnumV):
        raise Unsupported('hash key enum')
    r = (a == b)
    return r


class MapV:
    def __init__(self):
        self.entries = []       # [key, value]

    def clone(self):
        m = MapV(); m.entries = [[clone_val(k), clone_val(v)] for k, v in self.entries]
        return m

    def find(self, e, key):
        for ent in self.entries:
            if e.branch(val_eq(e, ent[0], key)):
                return ent
        return None

    def ordered(self, e):
        return order_hash(e, self.entries)


class SetV:
    def __init__(self):
        self.items = []

    def clone(self):
        s = SetV(); s.items = [clone_val(x) for x in self.items]
        return s

    def contains(self, e, key):
        for x in self.items:
            if e.branch(val_eq(e, x, key)):
                return True
        return False

    def insert(self, e, key):
        if self.contains(e, key):
            return False
        self.items.append(key)
        return True

    def ordered(self, e):
        return order_hash(e, self.items)


def order_hash(e, items):
    """iteration order of an unordered container.  'insertion' by default; a check may install
    engine.hash_order = callable(engine, n) -> permutation to make it a symbolic choice."""
    ho = e.hash_order
    if ho == 'insertion' or len(items) < 2:
        return list(items)
    perm = ho(e, len(items))
    return [items[i] for i in perm]


@exact('std::collections::HashMap::new')
def m_map_new(e, args, info):
    return MapV()


@exact('std::collections::HashSet::new')
def m_set_new(e, args, info):
    return SetV()


@exact('std::collections::HashMap::insert')
def m_map_insert(e, args, info):
    m = e.deref(args[0])
    ent = m.find(e, args[1])
    if ent is not None:
        old = ent[1]
        ent[1] = args[2]
        return some(old)
    m.entries.append([args[1], args[2]])
    return none()


@exact('std::collections::HashMap::get')
def m_map_get(e, args, info):
    r = args[0]
    m = e.deref(r)
    ent = m.find(e, args[1])
    if ent is None:
        return none()
    c = Cell(ent)
    return some(Ref(c, (('f', 1),)))


@exact('std::collections::HashMap::get_mut')
def m_map_get_mut(e, args, info):
    return m_map_get(e, args, info)


@exact('std::collections::HashMap::remove')
def m_map_remove(e, args, info):
    m = e.deref(args[0])
    ent = m.find(e, args[1])
    if ent is None:
        return none()
    m.entries.remove(ent)
    return some(ent[1])


@exact('std::collections::HashMap::contains_key')
def m_map_contains(e, args, info):
    return e.deref(args[0]).find(e, args[1]) is not None


@exact('std::collections::HashMap::len')
def m_map_len(e, args, info):
    return len(e.deref(args[0]).entries)


@exact('std::collections::HashMap::is_empty')
def m_map_is_empty(e, args, info):
    return len(e.deref(args[0]).entries) == 0


@exact('std::collections::HashMap::iter')
def m_map_iter(e, args, info):
    m = e.deref(args[0])
    return ListIt([Agg(None, [Ref(Cell(k)), Ref(Cell(v))]) for k, v in m.ordered(e)])


@exact('std::collections::HashSet::insert')
def m_set_insert(e, args, info):
    return e.deref(args[0]).insert(e, args[1])


@exact('std::collections::HashSet::contains')
def m_set_contains(e, args, info):
    return e.deref(args[0]).contains(e, args[1])


@exact('std::collections::HashSet::iter')
def m_set_iter(e, args, info):
    s = e.deref(args[0])
    return ListIt([Ref(Cell(x)) for x in s.ordered(e)])


# =========================================================================== strings / fmt

def str_eq(a, b):
    if isinstance(a, str) and isinstance(b, str):
        return a == b
    if isinstance(a, SymStr) and isinstance(b, str):
        return (a.atom == a.uni.index(b)) if b in a.uni else False
    if isinstance(b, SymStr) and isinstance(a, str):
        return str_eq(b, a)
    if isinstance(a, SymStr) and isinstance(b, SymStr):
        if a.uni == b.uni:
            return a.atom == b.atom
        conds = [z3.And(a.atom == i, b.atom == b.uni.index(s)) for i, s in enumerate(a.uni) if s in b.uni]
        return z3.Or(conds) if conds else False
    # FmtStr against a concrete string: match the concrete pieces literally and every symbolic piece against its universe
    if isinstance(a, FmtStr) and isinstance(b, str):
        return fmt_match(a.parts, b)
    if isinstance(b, FmtStr) and isinstance(a, str):
        return fmt_match(b.parts, a)
    # FmtStr vs FmtStr: compare piecewise when shapes agree
    pa = a.parts if isinstance(a, FmtStr) else [a]
    pb = b.parts if isinstance(b, FmtStr) else [b]
    if len(pa) != len(pb):
        return False
    conds = []
    for x, y in zip(pa, pb):
        if isinstance(x, str) != isinstance(y, str):
            return False
        c = str_eq(x, y)
        if c is False:
            return False
        if c is not True:
            conds.append(c)
    return z3.And(conds) if conds else True


def fmt_match(parts, text):
    """condition under which the concatenation of parts (str | SymStr) equals text"""
    if not parts:
        return text == ''
    p = parts[0]
    if isinstance(p, str):
        if not text.startswith(p):
            return False
        return fmt_match(parts[1:], text[len(p):])
    alts = []
    for i, v in enumerate(p.uni):
        if text.startswith(v):
            rest = fmt_match(parts[1:], text[len(v):])
            if rest is False:
                continue
            alts.append((p.atom == i) if rest is True else z3.And(p.atom == i, rest))
    if not alts:
        return False
    return z3.Or(alts) if len(alts) > 1 else alts[0]


@trait('PartialEq', 'eq')
def m_eq(e, args, info):
    a, b = e.deref(args[0]), e.deref(args[1])
    if isinstance(a, (str, SymStr, FmtStr)):
        return str_eq(a, b)
    if isinstance(a, IdentV):
        return str_eq(a.name, b.name if isinstance(b, IdentV) else b)          # Ident == Ident, Ident == str
    if isinstance(a, Opq) and isinstance(b, Opq):
        return a.id == b.id
    if hasattr(a, 'name') and hasattr(b, 'name') and type(a) is type(b) and type(a).__name__ == 'LifetimeV':
        return a.name == b.name
    if isinstance(a, EnumV) and isinstance(b, EnumV) and a.ty == b.ty and a.ty in ('std::option::Option', 'core::option::Option'):
        # Option<T>: same discriminant and, for Some, equal payloads (payload equality through this same dispatch)
        da = a.d if isinstance(a.d, int) else (1 if e.branch(a.d == 1) else 0)
        db = b.d if isinstance(b.d, int) else (1 if e.branch(b.d == 1) else 0)
        if da != db:
            return False
        if da == 0:
            return True
        return m_eq(e, [a.p[1][0], b.p[1][0]], info)
    if isinstance(a, (bool, int)) and isinstance(b, (bool, int)):
        return a == b
    if z3.is_expr(a) or z3.is_expr(b):
        return a == b
    if isinstance(a, Agg) and isinstance(b, Agg) and a.ty == b.ty and (a.ty is None or a.ty == '[]' or a.ty.startswith(('(', '['))):
        # arrays and tuples: element-wise
        conj = []
        if len(a.f) != len(b.f):
            return False
        for x, y in zip(a.f, b.f):
            r = m_eq(e, [x, y], info)
            if r is False:
                return False
            if r is not True:
                conj.append(r)
        return True if not conj else (conj[0] if len(conj) == 1 else z3.And(conj))
    if isinstance(a, VecV) and isinstance(b, VecV):
        if len(a.items) != len(b.items):
            return False
        for x, y in zip(a.items, b.items):
            r = m_eq(e, [x, y], info)
            if not (r if isinstance(r, bool) else e.branch(r)):
                return False
        return True
    if isinstance(a, (Agg, EnumV)) and (a.ty, 'PartialEq', 'eq') in e.trait_impls:
        # `&T == &T` (std's blanket impl for references) delegates to the crate's impl for T
        return e.call_fn(e.trait_impls[(a.ty, 'PartialEq', 'eq')][0][1], [Ref(Cell(a)), Ref(Cell(b))])
    raise Unsupported('PartialEq::eq on %r' % (a,))


@trait('PartialEq', 'ne')
def m_ne(e, args, info):
    r = m_eq(e, args, info)
    return (not r) if isinstance(r, bool) else z3.Not(r)


@trait('Into', 'into')
def m_into(e, args, info):
    ty, tr = info[1], info[2]
    if ty in ('str', '&str') or ty.startswith('std::string::String'):
        return e.deref(args[0]) if ty != 'std::string::String' else args[0]
    target = re.search(r'<(.*)>', tr).group(1)
    tb = strip_generics(target)
    src = ty.replace("'_ ", '').replace("'a ", '')
    cands = e.trait_impls.get((tb, 'From', 'from'))
    if cands:
        if len(cands) == 1:
            return e.call_fn(cands[0][1], [args[0]])
        want = strip_generics(src).replace('&', '').strip()
        for ta, nm in cands:
            if ta and strip_generics(ta).split('::')[-1] == want.split('::')[-1]:
                return e.call_fn(nm, [args[0]])
    raise Unsupported('Into %s -> %s' % (ty, target))


@trait('ToString', 'to_string')
def m_to_string(e, args, info):
    return display(e, e.deref(args[0]), info[1])


@exact('std::str::replace')
def m_replace(e, args, info):
    s = e.deref(args[0])
    a = args[1]
    a = chr(a) if isinstance(a, int) else e.deref(a)
    b = e.deref(args[2])
    if not isinstance(s, str):
        raise Unsupported('replace on symbolic string')
    return s.replace(a, b)


@exact('core::str::starts_with')
def m_starts_with(e, args, info):
    s, p = e.deref(args[0]), e.deref(args[1])
    if isinstance(s, str) and isinstance(p, str):
        return s.startswith(p)
    raise Unsupported('starts_with on symbolic string')


@exact('core::str::split')
def m_str_split(e, args, info):
    s = e.deref(args[0])
    pat = args[1]
    pat = chr(pat) if isinstance(pat, int) else e.deref(pat)
    if not isinstance(s, str):
        raise Unsupported('split on symbolic string')
    return ListIt(list(s.split(pat)))


@exact('std::string::String::new')
def m_string_new(e, args, info):
    return ''


@exact('std::string::String::is_empty')
def m_string_is_empty(e, args, info):
    return e.deref(args[0]) == ''


@exact('std::string::String::push')
def m_string_push(e, args, info):
    r = args[0]
    e.store(r.cell, r.proj, e.load(r.cell, r.proj) + chr(args[1]))
    return unit()


@exact('std::string::String::push_str')
def m_string_push_str(e, args, info):
    r = args[0]
    e.store(r.cell, r.proj, e.load(r.cell, r.proj) + e.deref(args[1]))
    return unit()


@exact('core::str::chars')
def m_chars(e, args, info):
    s = e.deref(args[0])
    return ListIt([ord(c) for c in s])


@exact('std::char::methods::is_whitespace')
def m_is_ws(e, args, info):
    c = e.deref(args[0])
    return chr(c).isspace()


class FmtArg:
    def __init__(self, val, ty):
        self.val, self.ty = val, ty


class FmtArgs:
    def __init__(self, parts):
        self.parts = parts


@exact('core::fmt::rt::Argument::new_display')
def m_new_display(e, args, info):
    ty = re.search(r'new_display::<(.*)>$', info[2])
    return FmtArg(args[0], ty.group(1) if ty else '')


@exact('std::fmt::Arguments::from_str', 'std::fmt::Arguments::from_str_nonconst')
def m_args_from_str(e, args, info):
    return FmtArgs([e.deref(args[0])])


@exact('std::fmt::Arguments::new')
def m_args_new(e, args, info):
    tpl = e.deref(args[0])
    if isinstance(tpl, Agg):
        tpl = bytes(tpl.f)
    fa = e.deref(args[1])
    fargs = fa.f if isinstance(fa, Agg) else fa.items
    parts, i, ai = [], 0, 0
    while True:
        n = tpl[i]; i += 1
        if n == 0:
            break
        if n < 0x80:
            parts.append(tpl[i:i + n].decode('utf-8')); i += n
        elif n == 0x80:
            ln = tpl[i] | (tpl[i + 1] << 8); i += 2
            parts.append(tpl[i:i + ln].decode('utf-8')); i += ln
        elif n == 0xC0:
            parts.append(fargs[ai]); ai += 1
        else:
            if n & 1:
                i += 4
            if n & 2:
                i += 2
            if n & 4:
                i += 2
            if n & 8:
                ai = tpl[i] | (tpl[i + 1] << 8); i += 2
            parts.append(fargs[ai]); ai += 1
    return FmtArgs(parts)


def display(e, v, ty=''):
    v = e.deref(v)
    if isinstance(v, (str, SymStr, FmtStr)):
        return v
    if isinstance(v, bool):
        return 'true' if v else 'false'
    if isinstance(v, int):
        return str(v)
    if isinstance(v, IdentV):
        return v.name
    if isinstance(v, TS):
        if len(v.items) == 1 and isinstance(v.items[0], TIdent) and not isinstance(v.items[0].name, str):
            return v.items[0].name
        return ts_to_string(v)
    if isinstance(v, Agg) and v.ty == 'quote::__private::IdentFragmentAdapter':
        return display(e, v.f[0])
    if isinstance(v, Agg) and v.ty and (v.ty, 'Display', 'fmt') in e.trait_impls:
        buf = FormatterV()
        e.call_fn(e.trait_impls[(v.ty, 'Display', 'fmt')][0][1], [Ref(Cell(v)), Ref(Cell(buf))])
        return ''.join(buf.out)
    if isinstance(v, (EnumV, Agg, VecV, Opq)):
        ts = TS()
        to_tokens(e, v, ts)
        return ts_to_string(ts)
    raise Unsupported('Display of %r' % (v,))


class FormatterV:
    def __init__(self):
        self.out = []


@exact('std::fmt::Formatter::write_str')
def m_write_str(e, args, info):
    e.deref(args[0]).out.append(e.deref(args[1]))
    return ok(unit())


@exact('std::fmt::format')
def m_format(e, args, info):
    parts = []
    for p in args[0].parts:
        if isinstance(p, FmtArg):
            parts.append(display(e, p.val, p.ty))
        else:
            parts.append(p)
    if all(isinstance(p, str) for p in parts):
        return ''.join(parts)
    return FmtStr(parts)


@exact('std::rt::panic_fmt')
def m_panic_fmt(e, args, info):
    a = args[0]
    msg = ''.join(str(display(e, p.val, p.ty)) if isinstance(p, FmtArg) else p for p in a.parts)
    raise Panic(msg)


@exact('core::panicking::panic', 'core::panicking::panic_fmt', 'std::rt::begin_panic')
def m_panic(e, args, info):
    raise Panic(str(e.deref(args[0])))


# =========================================================================== proc_macro2 / quote

class IdentV:
    __slots__ = ('name', 'span', 'origin')

    def __init__(self, name, span=None, origin=None):
        self.name, self.span, self.origin = name, span, origin

    def __repr__(self):
        return 'Ident(%s)' % (self.name,)


class GenericsV:
    """syn::Generics: params is a VecV of GenericParam values (see build.py), where_clause opaque"""
    __slots__ = ('params', 'where')

    def __init__(self, params, where):
        self.params, self.where = VecV(params) if isinstance(params, list) else params, where

    def clone(self):
        return GenericsV(clone_val(self.params), self.where)

    def get_field(self, e, i):
        # syn1: Generics { lt_token, params, gt_token, where_clause }
        if i == 1:
            return self.params
        if i == 3:
            return some(self.where) if self.where is not None else none()
        raise Unsupported('Generics field %d' % i)


class GroupV:
    __slots__ = ('delim', 'ts', 'origin')

    def __init__(self, delim, ts, origin=None):
        self.delim, self.ts, self.origin = delim, ts, origin


def delim_val(d):
    if isinstance(d, str):
        return EnumV(DELIM, DELIMS.index(d), {})
    return EnumV(DELIM, d, {})


def tok_to_tree(e, t):
    """token object -> proc_macro2::TokenTree value"""
    if isinstance(t, TGroup):
        return EnumV(TT, 0, {0: [GroupV(t.delim, t.ts, t.origin)]})
    if isinstance(t, TIdent):
        return EnumV(TT, 1, {1: [IdentV(t.name, None, t.origin)]})
    if isinstance(t, TPunct):
        return EnumV(TT, 2, {2: [t]})
    if isinstance(t, (TLit, TOpq)):
        return EnumV(TT, 3, {3: [t]})
    if isinstance(t, TSymTok):
        p = {}
        for k, alt in t.alts.items():
            p[k] = tok_to_tree(e, alt).p[k]
        return EnumV(TT, t.d, p)
    raise Unsupported('token %r' % (t,))


def tree_to_tok(e, v):
    d = e.concretize(v.d, [0, 1, 2, 3])
    x = v.p[d][0]
    if d == 0:
        return TGroup(x.delim, x.ts, x.origin)
    if d == 1:
        return TIdent(x.name, x.origin)
    return x


SEP = {'syn::token::Dot': '.', 'syn::token::Comma': ',', 'syn::token::Add': '+', 'syn::token::Plus': '+', 'syn::token::Colon2': '::', 'syn::token::PathSep': '::'}


def to_tokens(e, v, ts, ty=''):
    """<T as ToTokens>::to_tokens for every T the crate interpolates"""
    while isinstance(v, Ref):
        v = e.load(v.cell, v.proj)
    if isinstance(v, TS):
        ts.items.extend(v.items)
    elif isinstance(v, IdentV):
        ts.items.append(TIdent(v.name, v.origin))
    elif isinstance(v, (TPunct, TLit, TOpq, TGroup)):
        ts.items.append(v)
    elif isinstance(v, GroupV):
        ts.items.append(TGroup(v.delim, v.ts, v.origin))
    elif isinstance(v, EnumV):
        if v.ty == OPT:
            if e.concretize(v.d, [0, 1]) == 1:
                to_tokens(e, v.p[1][0], ts)
        elif v.ty == MEMBER:
            d = e.concretize(v.d, [0, 1])
            to_tokens(e, v.p[d][0], ts)
        elif v.ty == TT:
            ts.items.append(tree_to_tok(e, v))
        elif v.ty in ('syn::GenericParam', 'syn::GenericArgument'):
            d = e.concretize(v.d, list(range(len(e.enums[v.ty]))))
            to_tokens(e, v.p[d][0], ts)
        else:
            raise Unsupported('ToTokens for enum ' + v.ty)
    elif isinstance(v, Agg):
        if v.ty == 'syn::Index':
            idx = v.f[0]
            ts.items.append(TLit(str(idx)))
        elif v.ty == 'quote::__private::RepInterp':
            to_tokens(e, v.f[0], ts)
        else:
            raise Unsupported('ToTokens for ' + str(v.ty))
    elif isinstance(v, VecV):
        sep = '.'
        m = re.search(r'Punctuated<.*, ([\w:]+)>', ty)
        if m:
            sep = SEP.get(m.group(1), None)
            if sep is None:
                raise Unsupported('separator ' + m.group(1))
        for i, x in enumerate(v.items):
            if i:
                push_punct(ts, sep)
            to_tokens(e, x, ts)
    elif isinstance(v, Opq):
        if isinstance(v.data, TS):
            ts.items.extend(v.data.items)
        else:
            raise Unsupported('ToTokens for opaque ' + v.kind)
    elif isinstance(v, GenericsV):
        generics_to_tokens(e, v, ts)
    elif hasattr(v, 'to_tokens'):
        v.to_tokens(e, ts)
    else:
        raise Unsupported('ToTokens for %r' % (v,))


def generics_to_tokens(e, g, ts):
    """syn 1.0.x `impl ToTokens for Generics`: nothing when empty; lifetimes are printed first (each with the comma that follows it in
    the Punctuated, if any), then the other parameters in full (bounds and defaults included), inserting a comma when the last thing
    printed had none — which is how a trailing comma appears when a lifetime was pushed after a type parameter."""
    params = g.params.items
    if not params:
        return
    push_punct(ts, '<')
    lt_idx = e.enums['syn::GenericParam'].index('Lifetime')
    n = len(params)
    trailing_or_empty = True
    for i, p in enumerate(params):
        if p.d == lt_idx:
            to_tokens(e, p, ts)
            has_punct = i < n - 1
            if has_punct:
                push_punct(ts, ',')
            trailing_or_empty = has_punct
    for i, p in enumerate(params):
        if p.d == lt_idx:
            continue
        if not trailing_or_empty:
            push_punct(ts, ',')
            trailing_or_empty = True
        to_tokens(e, p, ts)
        if i < n - 1:
            push_punct(ts, ',')
    push_punct(ts, '>')


class GenView:
    """syn::ImplGenerics / syn::TypeGenerics: views of a Generics value with their own printing rules"""

    def __init__(self, g, mode):
        self.g, self.mode = g, mode

    def clone(self):
        return self

    def to_tokens(self, e, ts):
        params = self.g.params.items
        if not params:
            return
        push_punct(ts, '<')
        lt_idx = e.enums['syn::GenericParam'].index('Lifetime')
        n = len(params)
        trailing_or_empty = True
        for i, p in enumerate(params):
            if p.d == lt_idx:
                self.one(e, p, ts)
                if i < n - 1:
                    push_punct(ts, ',')
                trailing_or_empty = i < n - 1
        for i, p in enumerate(params):
            if p.d == lt_idx:
                continue
            if not trailing_or_empty:
                push_punct(ts, ',')
                trailing_or_empty = True
            self.one(e, p, ts)
            if i < n - 1:
                push_punct(ts, ',')
        push_punct(ts, '>')

    def one(self, e, p, ts):
        v = p.p[p.d][0]
        if self.mode == 'type':
            v.name_tokens(e, ts)           # argument form: the bare name
        else:
            v.impl_tokens(e, ts)           # declaration without default


@exact('syn::Generics::split_for_impl')
def m_split_for_impl(e, args, info):
    g = e.deref(args[0])
    return Agg(None, [GenView(g, 'impl'), GenView(g, 'type'), none() if g.where is None else some(g.where)])


def push_punct(ts, s):
    for i, ch in enumerate(s):
        ts.items.append(TPunct(ch, i < len(s) - 1))


@trait('ToTokens', 'to_tokens')
def m_to_tokens(e, args, info):
    ts = e.deref(args[1])
    to_tokens(e, args[0], ts, info[1])
    return unit()


@trait('ToTokens', 'to_token_stream')
def m_to_token_stream(e, args, info):
    ts = TS()
    to_tokens(e, args[0], ts, info[1])
    return ts


@trait('TokenStreamExt', 'append')
def m_append(e, args, info):
    ts = e.deref(args[0])
    to_tokens(e, args[1], ts)
    return unit()


@exact('proc_macro2::TokenStream::new')
def m_ts_new(e, args, info):
    return TS()


@exact('proc_macro2::TokenStream::is_empty')
def m_ts_is_empty(e, args, info):
    return len(e.deref(args[0]).items) == 0


@trait('FromIterator', 'from_iter')
def m_from_iter(e, args, info):
    ty = info[1]
    it = to_iter(e, args[0])
    if ty.startswith('proc_macro2::TokenStream'):
        ts = TS()
        while True:
            x = it.next(e)
            if x is STOP:
                return ts
            to_tokens(e, x, ts)
    raise Unsupported('from_iter for ' + ty)


PUNCTS = {'add': '+', 'and': '&', 'bang': '!', 'colon': ':', 'colon2': '::', 'comma': ',', 'dot': '.', 'dot2': '..', 'eq': '=',
          'fat_arrow': '=>', 'gt': '>', 'lt': '<', 'pound': '#', 'question': '?', 'rarrow': '->', 'semi': ';', 'star': '*',
          'sub': '-', 'or': '|', 'at': '@', 'tilde': '~', 'eq_eq': '==', 'ne': '!=', 'and_and': '&&', 'or_or': '||',
          'dot3': '...', 'dot_dot_eq': '..=', 'div': '/', 'rem': '%', 'caret': '^', 'le': '<=', 'ge': '>=', 'dollar': '$'}


def _mk_push(s):
    def f(e, args, info):
        push_punct(e.deref(args[0]), s)
        return unit()
    f.__name__ = 'm_push_' + s
    return f


for _k, _v in PUNCTS.items():
    EXACT['quote::__private::push_' + _k] = _mk_push(_v)


@exact('quote::__private::push_underscore')
def m_push_underscore(e, args, info):
    e.deref(args[0]).items.append(TIdent('_'))
    return unit()


@exact('quote::__private::push_ident')
def m_push_ident(e, args, info):
    e.deref(args[0]).items.append(TIdent(e.deref(args[1])))
    return unit()


@exact('quote::__private::push_lifetime')
def m_push_lifetime(e, args, info):
    ts = e.deref(args[0])
    s = e.deref(args[1])
    ts.items.append(TPunct("'", True))
    ts.items.append(TIdent(s[1:]))
    return unit()


@exact('quote::__private::push_group')
def m_push_group(e, args, info):
    ts = e.deref(args[0])
    d = args[1]
    dn = DELIMS[e.concretize(d.d, [0, 1, 2, 3])]
    ts.items.append(TGroup(dn, args[2]))
    return unit()


@exact('quote::__private::parse')
def m_quote_parse(e, args, info):
    ts = e.deref(args[0])
    ts.items.extend(tokenize(e.deref(args[1])).items)
    return unit()


@exact('quote::__private::mk_ident')
def m_mk_ident(e, args, info):
    return IdentV(e.deref(args[0]), Opq('Span', 'mk'))


@exact('quote::__private::IdentFragmentAdapter::span')
def m_ifa_span(e, args, info):
    return none()


@trait('RepAsIteratorExt', 'quote_into_iter')
@trait('RepIteratorExt', 'quote_into_iter')
def m_quote_into_iter(e, args, info):
    return Agg(None, [to_iter(e, args[0]), Agg('quote::__private::HasIterator', [])])


@trait('BitOr', 'bitor')
def m_bitor(e, args, info):
    return args[0]


@trait('CheckHasIterator', 'check')
def m_check(e, args, info):
    return unit()


@exact('proc_macro2::Group::new')
def m_group_new(e, args, info):
    d = args[0]
    return GroupV(DELIMS[e.concretize(d.d, [0, 1, 2, 3])], args[1])


@exact('proc_macro2::Group::set_span')
def m_group_set_span(e, args, info):
    return unit()


@exact('proc_macro2::Group::span')
def m_group_span(e, args, info):
    return Opq('Span', 'group')


@exact('proc_macro2::Group::delimiter')
def m_group_delim(e, args, info):
    return delim_val(e.deref(args[0]).delim)


@exact('proc_macro2::Group::stream')
def m_group_stream(e, args, info):
    return e.deref(args[0]).ts.clone()


@exact('proc_macro2::Punct::as_char')
def m_as_char(e, args, info):
    p = e.deref(args[0])
    return ord(p.ch) if isinstance(p.ch, str) else p.ch


@exact('proc_macro2::Span::call_site')
def m_call_site(e, args, info):
    return Opq('Span', 'call_site')


@exact('proc_macro2::Ident::span')
def m_ident_span(e, args, info):
    v = e.deref(args[0])
    return v.span if v.span is not None else Opq('Span', 'ident:%s' % (v.name,))


@exact('proc_macro2::Ident::new')
def m_ident_new(e, args, info):
    return IdentV(e.deref(args[0]), args[1])


@trait('Spanned', 'span')
def m_spanned(e, args, info):
    v = e.deref(args[0])
    if isinstance(v, IdentV):
        return v.span if v.span is not None else Opq('Span', 'ident:%s' % (v.name,))
    if isinstance(v, EnumV) and v.ty == MEMBER:
        d = e.concretize(v.d, [0, 1])
        x = v.p[d][0]
        if d == 0:
            return x.span if x.span is not None else Opq('Span', 'ident:%s' % (x.name,))
        return x.f[1]
    if isinstance(v, EnumV) and v.ty == OPT:
        if e.concretize(v.d, [0, 1]) == 0:
            return Opq('Span', 'call_site')
        return m_spanned(e, [v.p[1][0]], info)
    if isinstance(v, TS):
        return Opq('Span', 'ts:%s' % (hash(v.key()) % 100000,))
    if isinstance(v, Opq):
        return Opq('Span', '%s:%s' % (v.kind, v.id))
    if isinstance(v, VecV):
        return Opq('Span', 'seq:%d' % len(v.items))
    raise Unsupported('span of %r' % (v,))


# =========================================================================== syn::Error

class ErrV:
    def __init__(self, msgs, parse=False):
        self.msgs = msgs        # [(span, message)]
        self.parse = parse      # raised by the (modelled) syn token primitives rather than by the crate

    def clone(self):
        return ErrV(list(self.msgs), self.parse)

    def __repr__(self):
        return 'Err%r' % (self.msgs,)


@exact('syn::Error::new')
def m_err_new(e, args, info):
    return ErrV([(args[0], display(e, args[1]))])


@exact('syn::Error::new_spanned')
def m_err_new_spanned(e, args, info):
    return ErrV([(Opq('Span', 'spanned'), display(e, args[1]))])


@exact('syn::Error::combine')
def m_err_combine(e, args, info):
    e.deref(args[0]).msgs.extend(args[1].msgs)
    return unit()
