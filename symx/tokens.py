"""Abstract proc_macro2 token model used by the symbolic executor.

A TokenStream is a python list of token objects.  User-supplied token streams are opaque
leaves with identity (TOpq); everything the crate's own `quote!` code pushes is structural.
"""
import re

DELIMS = ['Parenthesis', 'Brace', 'Bracket', 'None']
OPEN = {'Parenthesis': '(', 'Brace': '{', 'Bracket': '[', 'None': ''}
CLOSE = {'Parenthesis': ')', 'Brace': '}', 'Bracket': ']', 'None': ''}


class TIdent:
    __slots__ = ('name', 'origin')

    def __init__(self, name, origin=None):
        self.name, self.origin = name, origin      # origin: None = pushed by the crate, else input-leaf id

    def key(self):
        return ('I', self.name)

    def __repr__(self):
        return 'I:%s' % (self.name,)


class TPunct:
    __slots__ = ('ch', 'joint', 'origin')

    def __init__(self, ch, joint=False, origin=None):
        self.ch, self.joint, self.origin = ch, joint, origin   # ch: str of len 1, or z3 Int (code point)

    def key(self):
        return ('P', self.ch if isinstance(self.ch, str) else str(self.ch), bool(self.joint) if isinstance(self.joint, bool) else str(self.joint))

    def __repr__(self):
        return 'P:%s%s' % (self.ch, '+' if self.joint is True else '')


class TLit:
    __slots__ = ('text', 'origin')

    def __init__(self, text, origin=None):
        self.text, self.origin = text, origin

    def key(self):
        return ('L', self.text)

    def __repr__(self):
        return 'L:%s' % (self.text,)


class TGroup:
    __slots__ = ('delim', 'ts', 'origin')

    def __init__(self, delim, ts, origin=None):
        self.delim, self.ts, self.origin = delim, ts, origin   # delim: name in DELIMS (or z3 Int index when symbolic)

    def key(self):
        return ('G', self.delim if isinstance(self.delim, str) else str(self.delim), self.ts.key())

    def __repr__(self):
        return 'G:%s%r' % (self.delim, self.ts.items)


class TOpq:
    """opaque user token-stream leaf: (category, id).  category in expr/type/path/pat/attr/where/ident/other"""
    __slots__ = ('cat', 'id')

    def __init__(self, cat, id):
        self.cat, self.id = cat, id

    origin = property(lambda self: self.id)

    def key(self):
        return ('O', self.cat, self.id)

    def __repr__(self):
        return 'O:%s%s' % (self.cat, self.id)


class TSymTok:
    """token whose class is symbolic (used for C10): d is a z3 Int over TokenTree variants,
    alts maps variant index -> concrete token object of that class"""
    __slots__ = ('d', 'alts')

    def __init__(self, d, alts):
        self.d, self.alts = d, alts

    origin = None

    def key(self):
        return ('S', str(self.d))

    def __repr__(self):
        return 'S:%s' % (self.d,)


class TS:
    __slots__ = ('items',)

    def __init__(self, items=None):
        self.items = items if items is not None else []

    def clone(self):
        return TS(list(self.items))     # token objects are immutable

    def key(self):
        return tuple(t.key() for t in self.items)

    def __repr__(self):
        return 'TS%r' % (self.items,)


def ts_to_string(ts):
    """proc_macro2 fallback Display (what `to_string()` yields outside a real proc-macro context)."""
    out = []
    joint = False
    for i, t in enumerate(ts.items):
        if i != 0 and not joint:
            out.append(' ')
        joint = False
        if isinstance(t, TGroup):
            inner = ts_to_string(t.ts)
            d = t.delim
            if d == 'Parenthesis':
                out.append('(' + inner + ')')
            elif d == 'Brace':
                out.append('{ ' + inner + ' }' if inner else '{ }')
            elif d == 'Bracket':
                out.append('[' + inner + ']')
            else:
                out.append(inner)
        elif isinstance(t, TIdent):
            out.append(t.name)
        elif isinstance(t, TPunct):
            out.append(t.ch)
            joint = t.joint is True
        elif isinstance(t, TLit):
            out.append(t.text)
        elif isinstance(t, TOpq):
            out.append('\x00%s%s\x00' % (t.cat, t.id))
        else:
            raise ValueError('cannot print symbolic token')
    return ''.join(out)


_TOK = re.compile(r"\s*(?:(?P<str>(?:b?\"(?:[^\"\\]|\\.)*\")|(?:b?r#\"[^\"]*\"#)|(?:b?r\"[^\"]*\")|(?:b?'(?:\\.|[^\\'])'))|(?P<id>[A-Za-z_][A-Za-z0-9_]*)|(?P<lt>'[A-Za-z_][A-Za-z0-9_]*)|(?P<num>\d\w*(?:\.\d\w*)?)|(?P<p>[~@#$%^&*\-+=|:;,.<>?/!])|(?P<open>[(\[{])|(?P<close>[)\]}]))")


def tokenize(s, origin=None):
    """small tokenizer for strings handed to quote::__private::parse and for instantiated leaves"""
    stack = [[]]
    delims = []
    pos = 0
    s = s.strip()
    while pos < len(s):
        m = _TOK.match(s, pos)
        if not m:
            raise ValueError('cannot tokenize %r at %d' % (s, pos))
        pos = m.end()
        if m.group('str'):
            stack[-1].append(TLit(m.group('str'), origin))
        elif m.group('id'):
            stack[-1].append(TIdent(m.group('id'), origin))
        elif m.group('lt'):
            stack[-1].append(TPunct("'", True, origin)); stack[-1].append(TIdent(m.group('lt')[1:], origin))
        elif m.group('num'):
            stack[-1].append(TLit(m.group('num'), origin))
        elif m.group('str'):
            stack[-1].append(TLit(m.group('str'), origin))
        elif m.group('p'):
            ch = m.group('p')
            joint = pos < len(s) and s[pos] in "~@#$%^&*-+=|:;,.<>?/!"
            stack[-1].append(TPunct(ch, joint, origin))
        elif m.group('open'):
            delims.append({'(': 'Parenthesis', '{': 'Brace', '[': 'Bracket'}[m.group('open')])
            stack.append([])
        else:
            inner = stack.pop()
            stack[-1].append(TGroup(delims.pop(), TS(inner), origin))
    return TS(stack[0])


def render(ts, leaf_text=None):
    """render to source text; opaque leaves through leaf_text(cat, id)"""
    out = []
    for t in ts.items:
        if isinstance(t, TGroup):
            out.append(OPEN[t.delim] + ' ' + render(t.ts, leaf_text) + ' ' + CLOSE[t.delim])
        elif isinstance(t, TIdent):
            out.append(t.name)
        elif isinstance(t, TPunct):
            out.append(t.ch + ('\x01' if t.joint is True else ''))
        elif isinstance(t, TLit):
            out.append(t.text)
        elif isinstance(t, TOpq):
            out.append(leaf_text(t.cat, t.id) if leaf_text else '<%s%s>' % (t.cat, t.id))
        else:
            out.append(repr(t))
    s = ' '.join(out)
    return s.replace('\x01 ', '').replace('\x01', '')


def flat(ts):
    """canonical nested tuple (for equality / hashing / JSON)"""
    return ts.key()
