"""Parser for `rustc -Zunpretty=mir -Ztrim-diagnostic-paths=no` text.

Every statement/terminator is parsed once into nested tuples (see the grammar notes in
DESIGN.md Appendix E).  Nothing here knows about o2o; the file is regenerated from
/repo's sources on every run by checks/prep.py.
"""
import re

# --------------------------------------------------------------------------- helpers

def split_top(s, sep=','):
    out, depth, cur, i, n = [], 0, [], 0, len(s)
    while i < n:
        c = s[i]
        if c == '"':
            j = i + 1
            while j < n and s[j] != '"':
                if s[j] == '\\':
                    j += 1
                j += 1
            cur.append(s[i:j + 1]); i = j + 1; continue
        if c == "'":
            # char literal 'x' or '\x' / '\u{..}'
            if i + 2 < n and s[i + 1] != '\\' and s[i + 2] == "'":
                cur.append(s[i:i + 3]); i += 3; continue
            if i + 1 < n and s[i + 1] == '\\':
                j = s.find("'", i + 2)
                if j != -1 and j - i <= 12:
                    cur.append(s[i:j + 1]); i = j + 1; continue
        if c == '-' and i + 1 < n and s[i + 1] == '>':
            cur.append('->'); i += 2; continue
        if c == '=' and i + 1 < n and s[i + 1] == '>':
            cur.append('=>'); i += 2; continue
        if c in '([{<':
            depth += 1
        elif c in ')]}>':
            depth -= 1
        if c == sep and depth == 0:
            out.append(''.join(cur).strip()); cur = []
        else:
            cur.append(c)
        i += 1
    t = ''.join(cur).strip()
    if t:
        out.append(t)
    return out


def match_close(s, i):
    depth, n, j = 0, len(s), i
    while j < n:
        c = s[j]
        if c == '"':
            j += 1
            while j < n and s[j] != '"':
                if s[j] == '\\':
                    j += 1
                j += 1
        elif c == "'" and j + 2 < n and s[j + 1] != '\\' and s[j + 2] == "'":
            j += 2
        elif c == '-' and j + 1 < n and s[j + 1] == '>':
            j += 1
        elif c == '=' and j + 1 < n and s[j + 1] == '>':
            j += 1
        elif c in '([{<':
            depth += 1
        elif c in ')]}>':
            depth -= 1
            if depth == 0:
                return j
        j += 1
    raise ValueError('unbalanced: ' + s[i:i + 120])


def strip_generics(p):
    """remove every <...> group (and the `::` that introduced a turbofish)."""
    out, depth, i, n = [], 0, 0, len(p)
    while i < n:
        c = p[i]
        if c == '-' and p[i + 1:i + 2] == '>':
            if depth == 0:
                out.append('->')
            i += 2; continue
        if c == '<':
            depth += 1
        elif c == '>':
            depth -= 1
        elif depth == 0:
            out.append(c)
        i += 1
    s = ''.join(out)
    s = re.sub(r'::(::)+', '::', s)
    return s.rstrip(':')


class ParseError(Exception):
    pass


def split_qualified(callee):
    """`<T as Trait<..>>::method::<G>` -> (T, Trait<..>, method, G or None); None if not of that form"""
    if not callee.startswith('<'):
        return None
    try:
        end = match_close(callee, 0)
    except ValueError:
        return None
    inner = callee[1:end]
    rest = callee[end + 1:]
    if not rest.startswith('::'):
        return None
    depth, i, n, pos = 0, 0, len(inner), None
    while i < n:
        c = inner[i]
        if c == '-' and inner[i + 1:i + 2] == '>':
            i += 2; continue
        if c in '<([{':
            depth += 1
        elif c in '>)]}':
            depth -= 1
        elif depth == 0 and inner.startswith(' as ', i):
            pos = i
        i += 1
    if pos is None:
        return None
    rest = rest[2:]
    k = rest.find('::<')
    if k == -1:
        return inner[:pos], inner[pos + 4:], rest, None
    return inner[:pos], inner[pos + 4:], rest[:k], rest[k + 3:-1]

# --------------------------------------------------------------------------- places / operands

def parse_place(s):
    pl, i = _place(s, 0)
    if i != len(s):
        raise ParseError('place trailing: %r' % s)
    return pl


def _place(s, i):
    n = len(s)
    if s[i] == '_':
        j = i + 1
        while j < n and s[j].isdigit():
            j += 1
        pl = ('local', int(s[i + 1:j])); i = j
    elif s[i] == '(':
        if s[i + 1] == '*':
            inner, j = _place(s, i + 2)
            if s[j] != ')':
                raise ParseError('deref: ' + s)
            pl = ('deref', inner); i = j + 1
        else:
            inner, j = _place(s, i + 1)
            if s.startswith(' as ', j):
                k = s.index(')', j)
                pl = ('downcast', inner, s[j + 4:k]); i = k + 1
            elif s[j] == '.':
                k = j + 1
                while s[k].isdigit():
                    k += 1
                fidx = int(s[j + 1:k])
                if not s.startswith(': ', k):
                    raise ParseError('field: ' + s)
                # type runs to the matching ')'
                depth, m = 0, k + 2
                while True:
                    c = s[m]
                    if c == '-' and s[m + 1] == '>':
                        m += 2; continue
                    if c in '([{<':
                        depth += 1
                    elif c in ')]}>':
                        if depth == 0:
                            break
                        depth -= 1
                    m += 1
                pl = ('field', inner, fidx, s[k + 2:m]); i = m + 1
            else:
                raise ParseError('paren place: ' + s)
    else:
        raise ParseError('place: %r' % s[i:])
    while i < n and s[i] == '[':
        j = s.index(']', i)
        body = s[i + 1:j]
        m = re.match(r'_(\d+)$', body)
        if m:
            pl = ('idx', pl, int(m.group(1)))
        else:
            m = re.match(r'(-?\d+) of (\d+)$', body)
            if m:
                pl = ('cidx', pl, int(m.group(1)), int(m.group(2)))
            else:
                raise ParseError('index: ' + s)
        i = j + 1
    return pl, i


def parse_operand(s):
    s = s.strip()
    if s.startswith('no_retag '):
        s = s[9:]
    if s.startswith('copy '):
        return ('copy', parse_place(s[5:]))
    if s.startswith('move '):
        return ('move', parse_place(s[5:]))
    if s.startswith('const '):
        return ('const', s[6:].strip())
    return ('const', s)     # bare fn item / path


BINOPS = ('Eq', 'Ne', 'Lt', 'Le', 'Gt', 'Ge', 'Add', 'Sub', 'Mul', 'BitAnd', 'BitOr', 'BitXor', 'Offset',
          'AddWithOverflow', 'SubWithOverflow', 'MulWithOverflow', 'AddUnchecked', 'SubUnchecked', 'Div', 'Rem', 'Shl', 'Shr', 'Cmp')
UNOPS = ('Not', 'Neg', 'PtrMetadata')
_OPERAND_START = re.compile(r'(copy|move|const|no_retag) ')


def parse_rvalue(s):
    s = s.strip()
    if s.startswith('&raw '):
        t = s.split(' ', 2)[2]
        return ('ref', parse_place(t))
    if s.startswith('&mut '):
        return ('ref', parse_place(s[5:]))
    if s.startswith('&'):
        t = s[1:].strip()
        if t.startswith('fake '):
            t = t.split(' ', 2)[2]
        return ('ref', parse_place(t))
    if s.startswith('discriminant('):
        return ('discr', parse_place(s[13:-1]))
    m = re.match(r'(\w+)\((.*)\)$', s)
    if m and m.group(1) in BINOPS:
        a, b = split_top(m.group(2))
        return ('bin', m.group(1), parse_operand(a), parse_operand(b))
    if m and m.group(1) in UNOPS:
        return ('un', m.group(1), parse_operand(m.group(2)))
    if m and m.group(1) == 'Len':
        return ('len', parse_place(m.group(2)))
    if _OPERAND_START.match(s):
        # operand, possibly followed by a cast: "move _5 as u32 (IntToInt)"
        if s.endswith(')') and ' as ' in s and not s.startswith('const "'):
            m = re.search(r' \((\w+(?:\(.*\))?)\)$', s)
            if m:
                head = s[:m.start()]
                pos = head.rfind(' as ')
                while pos != -1:
                    try:
                        return ('cast', parse_operand(head[:pos]), head[pos + 4:], m.group(1))
                    except (ParseError, ValueError, IndexError):
                        pos = head.rfind(' as ', 0, pos)
        return ('use', parse_operand(s))
    if s.startswith('['):
        end = match_close(s, 0)
        inner = s[1:end]
        parts = split_top(inner, ';')
        if len(parts) == 2 and _OPERAND_START.match(parts[0]) and not split_top(inner)[1:]:
            return ('repeat', parse_operand(parts[0]), parts[1].strip())
        return ('array', [parse_operand(x) for x in split_top(inner)])
    if s.startswith('('):
        end = match_close(s, 0)
        if end == len(s) - 1:
            inner = s[1:-1]
            if inner.strip() == '':
                return ('tuple', [])
            parts = split_top(inner)
            if _OPERAND_START.match(parts[0]):
                return ('tuple', [parse_operand(x) for x in parts])
    if s.startswith('{closure@') or s.startswith('{coroutine@'):
        e = match_close(s, 0)
        ty = s[:e + 1]; rest = s[e + 1:].strip()
        caps = []
        if rest.startswith('{'):
            for part in split_top(rest[1:-1]):
                caps.append(parse_operand(part.split(': ', 1)[1]))
        return ('closure', ty, caps)
    # struct / variant aggregates
    if s.endswith('}'):
        # Path { f: op, .. }
        k = s.rfind(' { ')
        # find the opening brace matching the final one
        depth = 0
        for j in range(len(s) - 1, -1, -1):
            if s[j] == '}':
                depth += 1
            elif s[j] == '{':
                depth -= 1
                if depth == 0:
                    k = j; break
        path = s[:k].strip()
        body = s[k + 1:-1].strip()
        fields = []
        if body:
            for part in split_top(body):
                nm, v = part.split(': ', 1)
                fields.append((nm.strip(), parse_operand(v)))
        return ('struct', strip_generics(path), fields)
    m = re.match(r'(.*?)\((.*)\)$', s)
    if m and not _OPERAND_START.match(s):
        pe = None
        # path may contain generics with parens; find the last top-level '('
        depth = 0; i = 0; cand = None
        while i < len(s):
            c = s[i]
            if c == '-' and s[i + 1:i + 2] == '>':
                i += 2; continue
            if c in '<[{':
                depth += 1
            elif c in '>]}':
                depth -= 1
            elif c == '(' and depth == 0:
                j = match_close(s, i)
                if j == len(s) - 1:
                    cand = i; break
                i = j
            i += 1
        if cand is not None:
            path = s[:cand]
            args = [parse_operand(x) for x in split_top(s[cand + 1:-1])]
            return ('ctor', strip_generics(path), args)
    return ('use', parse_operand(s))

# --------------------------------------------------------------------------- functions


class Fn:
    __slots__ = ('name', 'params', 'ret', 'locals', 'blocks', 'header', 'nlocals', 'is_const')

    def __init__(self, name, params, ret, header):
        self.name, self.params, self.ret, self.header = name, params, ret, header
        self.locals = {}
        self.blocks = {}
        self.is_const = False


def _split_call(call):
    """callee(args) -> (callee, [args])"""
    depth, i, n = 0, 0, len(call)
    while i < n:
        ch = call[i]
        if ch == '-' and call[i + 1:i + 2] == '>':
            i += 2; continue
        if ch in '<{[':
            depth += 1
        elif ch in '>}]':
            depth -= 1
        elif ch == '(' and depth == 0:
            j = match_close(call, i)
            if j == n - 1:
                return call[:i], split_top(call[i + 1:-1])
            i = j
        i += 1
    raise ParseError('call: ' + call)


def parse_stmt(l):
    l = l.rstrip(';')
    if l.startswith(('StorageLive', 'StorageDead', 'FakeRead', 'PlaceMention', 'AscribeUserType', 'nop', 'Retag', 'Coverage', 'ConstEvalCounter', 'Deinit', 'BackwardIncompatibleDropHint')):
        return None
    if l.startswith('assume('):
        return None
    if l.startswith('discriminant(') and ' = ' in l:
        m = re.match(r'discriminant\((.*)\) = (\d+)$', l)
        return ('setdiscr', parse_place(m.group(1)), int(m.group(2)))
    lhs, rhs = l.split(' = ', 1)
    return ('assign', parse_place(lhs), parse_rvalue(rhs))


def parse_term(t):
    t = t.rstrip(';')
    if t == 'return':
        return ('return',)
    if t == 'unreachable':
        return ('unreachable',)
    if t.startswith('resume') or t.startswith('terminate'):
        return ('resume',)
    m = re.match(r'goto -> (bb\d+)$', t)
    if m:
        return ('goto', m.group(1))
    m = re.match(r'switchInt\((.*)\) -> \[(.*)\]$', t)
    if m:
        targets = []
        other = None
        for x in split_top(m.group(2)):
            k, bb = x.split(': ')
            if k == 'otherwise':
                other = bb
            else:
                targets.append((int(k), bb))
        return ('switch', parse_operand(m.group(1)), targets, other)
    m = re.match(r'drop\(.*\) -> \[return: (bb\d+)', t)
    if m:
        return ('goto', m.group(1))
    m = re.match(r'falseEdge -> \[real: (bb\d+)', t) or re.match(r'falseUnwind -> \[real: (bb\d+)', t)
    if m:
        return ('goto', m.group(1))
    if t.startswith('assert('):
        m = re.match(r'assert\((!?)((?:move|copy|const) [^,]*), (.*)\) -> \[success: (bb\d+)', t)
        return ('assert', m.group(1) == '!', parse_operand(m.group(2)), m.group(3), m.group(4))
    m = re.match(r'(.*?) = (.*) -> \[return: (bb\d+), unwind.*\]$', t)
    if m:
        callee, args = _split_call(m.group(2))
        return ('call', parse_place(m.group(1)), callee, [parse_operand(a) for a in args], m.group(3))
    m = re.match(r'(.*?) = (.*) -> (unwind.*|bb\d+)$', t)
    if m:
        callee, args = _split_call(m.group(2))
        return ('call', parse_place(m.group(1)), callee, [parse_operand(a) for a in args], None)
    raise ParseError('terminator: ' + t)


def parse_mir(text):
    fns, consts = {}, {}
    lines = text.split('\n')
    i, n = 0, len(lines)
    while i < n:
        ln = lines[i]
        is_fn = ln.startswith('fn ') and ln.rstrip().endswith('{')
        is_const = (ln.startswith('const ') or ln.startswith('static ')) and ln.rstrip().endswith('{')
        if not (is_fn or is_const):
            i += 1; continue
        if is_fn:
            hdr = ln[3:].rstrip()[:-1].rstrip()
            depth = 0; k = 0; pstart = None
            while k < len(hdr):
                c = hdr[k]
                if c == '-' and hdr[k + 1:k + 2] == '>':
                    k += 2; continue
                if c in '<{[':
                    depth += 1
                elif c in '>}]':
                    depth -= 1
                elif c == '(' and depth == 0:
                    pstart = k; break
                k += 1
            pend = match_close(hdr, pstart)
            name = hdr[:pstart]
            params = []
            for p in split_top(hdr[pstart + 1:pend]):
                m = re.match(r'_(\d+): (.*)$', p)
                params.append((int(m.group(1)), m.group(2)))
            ret = hdr[pend + 1:].strip()
            if ret.startswith('->'):
                ret = ret[2:].strip()
            f = Fn(name, params, ret, hdr)
        else:
            hdr = ln.split(' ', 1)[1].rstrip()[:-1].rstrip()
            m = re.match(r'(.*promoted\[\d+\]): (.*) =$', hdr) or re.match(r'(.*?): (.*) =$', hdr)
            name = m.group(1) if m else hdr
            f = Fn(name, [], m.group(2) if m else '', hdr)
            f.is_const = True
        i += 1
        cur = None
        raw = {}
        while i < n and lines[i] != '}':
            l = lines[i].strip()
            m = re.match(r'let (mut )?_(\d+): (.*);$', l)
            if m:
                f.locals[int(m.group(2))] = m.group(3)
            else:
                m = re.match(r'(bb\d+)( \(cleanup\))?: \{$', l)
                if m:
                    cur = m.group(1); raw[cur] = []
                elif l == '}':
                    cur = None
                elif cur is not None and l:
                    raw[cur].append(l)
            i += 1
        for pn, pt in f.params:
            f.locals[pn] = pt
        f.nlocals = (max(f.locals) + 1) if f.locals else 1
        f.blocks = raw        # parsed lazily by the engine (most functions are never executed)
        (consts if not is_fn else fns)[name] = f
        i += 1
    return fns, consts


def compile_blocks(f):
    """turn raw text blocks into parsed ones, once per function."""
    out = {}
    for bb, ls in f.blocks.items():
        stmts = []
        for l in ls[:-1]:
            st = parse_stmt(l)
            if st is not None:
                stmts.append(st)
        out[bb] = (stmts, parse_term(ls[-1]), ls)
    return out
