"""Declarative description of a derive input with symbolic choice points.

One description yields (a) the post-parse model as engine values over z3 variables
(`Spec.value`) and (b) — for a concrete assignment of the choice variables (a z3 model of a
path condition) — the attribute text the real parser turns into that model (`Spec.text`).
(b) is the inverse of the stubbed parse layer; it is validated on every explored path by
expanding the text with the real derive and comparing with the path's predicted output.

User-supplied token streams (expressions, types, patterns, ...) are concrete token trees taken
from small menus; every token carries an `origin` tag so decoders and the provenance check
(C20) can tell user tokens from tokens pushed by the crate.
"""
import z3
from engine import Agg, EnumV, Ref, VecV, Cell, SymStr, Opq, Unsupported
from models import some, none, IdentV, GenericsV, MEMBER, OPT
from tokens import TS, TIdent, TLit, TPunct, TGroup, tokenize
from build import B, KINDS, HINTS

GHOSTS_BITS = {'ghosts': [1, 1, 1, 1, 1, 1], 'ghosts_owned': [1, 0, 1, 0, 1, 0], 'ghosts_ref': [0, 1, 0, 1, 0, 1]}
GHOST_BITS = {'ghost': [1, 1, 1, 1, 1, 1], 'ghost_owned': [1, 0, 1, 0, 1, 0], 'ghost_ref': [0, 1, 0, 1, 0, 1]}
HINT_TEXT = {'Unspecified': '', 'Struct': ' as {}', 'Tuple': ' as ()', 'Unit': ' as Unit'}


class Ch:
    """choice point: `dom` is a list of python values; symbolic unless fork=True"""

    def __init__(self, name, dom, fork=False):
        self.name, self.dom, self.fork = name, list(dom), fork


def fixed(v):
    return v


class Env:
    """binds choice points to z3 variables for one exploration"""

    def __init__(self, engine):
        self.e = engine
        self.b = B(engine)
        self.vars = {}          # name -> (z3 var, Ch)

    def var(self, ch):
        if ch.name in self.vars:
            return self.vars[ch.name][0]
        v = z3.Int('c_' + ch.name)
        self.e.assume(z3.And(v >= 0, v < len(ch.dom)))
        self.vars[ch.name] = (v, ch)
        if ch.fork and len(ch.dom) > 1:
            k = self.e.decide([(i, v == i) for i in range(len(ch.dom))])
            self.vars[ch.name] = (v, ch)
            self.conc = getattr(self, 'conc', {})
            self.conc[ch.name] = k
        return v

    def pick(self, x):
        """-> (concrete value | None, z3 var | None) ; concrete when not a Ch, or a forked / singleton Ch"""
        if not isinstance(x, Ch):
            return x, None
        v = self.var(x)
        if len(x.dom) == 1:
            return x.dom[0], v
        if x.fork:
            return x.dom[self.conc[x.name]], v
        return None, v

    def is_in(self, x, pred):
        """z3 Bool / python bool: the chosen value satisfies pred"""
        c, v = self.pick(x)
        if v is None or c is not None:
            return bool(pred(c))
        idx = [i for i, d in enumerate(x.dom) if pred(d)]
        if len(idx) == len(x.dom):
            return True
        if not idx:
            return False
        return z3.Or([v == i for i in idx])

    def int_of(self, x, fn):
        """z3 Int / python int: fn(chosen value)"""
        c, v = self.pick(x)
        if v is None or c is not None:
            return fn(c)
        r = z3.IntVal(fn(x.dom[-1]))
        for i in range(len(x.dom) - 2, -1, -1):
            r = z3.If(v == i, fn(x.dom[i]), r)
        return z3.simplify(r)


class Ev:
    """evaluates choice points under a z3 model"""

    def __init__(self, env, model):
        self.env, self.m = env, model

    def __call__(self, x):
        if not isinstance(x, Ch):
            return x
        ent = self.env.vars.get(x.name)
        if ent is None:
            return x.dom[0]
        i = self.m.eval(ent[0], model_completion=True).as_long()
        return x.dom[i]


# --------------------------------------------------------------------------- leaves

LEAF_SRC = {}


def toks(text, origin):
    LEAF_SRC[origin] = text
    return tokenize(text, origin)


def member_val(b, m):
    """m: ('n', name) | ('i', idx)"""
    return b.named(m[1]) if m[0] == 'n' else b.unnamed(m[1])


def member_text(m):
    return str(m[1])


def opt_member(env, x):
    """x: None | ('n',name) | ('i',k) | Ch over those"""
    b = env.b
    c, v = env.pick(x)
    if v is None or c is not None or not isinstance(x, Ch):
        return none() if c is None else some(member_val(b, c))
    present = env.is_in(x, lambda d: d is not None)
    named = [d for d in x.dom if d is not None and d[0] == 'n']
    idxs = [d for d in x.dom if d is not None and d[0] == 'i']
    if len(named) > 1 or len(idxs) > 1:
        raise Unsupported('spec: a symbolic member choice may hold one name and one index')
    p = {}
    if named:
        p[0] = [b.ident(named[0][1])]
    if idxs:
        p[1] = [Agg('syn::Index', [idxs[0][1], Opq('Span', 'idx:%s' % idxs[0][1])])]
    md = env.int_of(x, lambda d: 1 if (d is not None and d[0] == 'i') else 0)
    return EnumV(OPT, z3.If(present, 1, 0) if not isinstance(present, bool) else int(present), {1: [EnumV(MEMBER, md, p)]})


def opt_tokens(env, x, origin):
    """x: None | text | Ch over those (at most one non-None text unless fork)"""
    c, v = env.pick(x)
    if not isinstance(x, Ch) or c is not None or v is None:
        return none() if c is None else some(toks(c, origin))
    texts = [d for d in x.dom if d is not None]
    if len(texts) > 1:
        raise Unsupported('spec: symbolic token choice with several alternatives must fork')
    present = env.is_in(x, lambda d: d is not None)
    return EnumV(OPT, z3.If(present, 1, 0), {1: [toks(texts[0], origin)]})


def ded_val(env, x, tys):
    """dedication: None | type name | Ch -> Option<TypePath>"""
    b = env.b
    c, v = env.pick(x)
    if not isinstance(x, Ch) or c is not None or v is None:
        return none() if c is None else some(b.type_path(c, toks(c, 'ty:' + c)))
    names = [d for d in x.dom if d is not None]
    if any(n not in tys for n in names):
        raise Unsupported('spec: dedication outside the type universe')
    atom = env.int_of(x, lambda d: tys.index(d) if d is not None else 0)
    present = env.is_in(x, lambda d: d is not None)
    tp = b.type_path(SymStr(atom, tys), TS([]))
    return EnumV(OPT, z3.If(present, 1, 0) if not isinstance(present, bool) else int(present), {1: [tp]})


def ded_text(ev, x):
    d = ev(x)
    return (d + '| ') if d is not None else ''


# --------------------------------------------------------------------------- instructions

class MapInstr:
    """member-level mapping instruction"""

    def __init__(self, name, ded=None, member=None, action=None, tag='m'):
        self.name, self.ded, self.member, self.action, self.tag = name, ded, member, action, tag

    def value(self, env, tabs, tys):
        b = env.b
        mtab = tabs['member_map']
        fall = env.is_in(self.name, lambda n: mtab[n][0])
        bits = [env.is_in(self.name, lambda n, j=j: mtab[n][1][j]) for j in range(6)]
        c, v = env.pick(self.name)
        oi = c if c is not None else SymStr(v, self.name.dom)
        core = b.mk('attr::MemberAttrCore', container_ty=ded_val(env, self.ded, tys), member=opt_member(env, self.member),
                    action=opt_tokens(env, self.action, self.tag))
        return b.mk('attr::MemberAttr', attr=core, fallible=fall, original_instr=oi, applicable_to=b.appl(bits))

    def text(self, ev):
        m, a = ev(self.member), ev(self.action)
        parts = []
        if m is not None:
            parts.append(member_text(m))
        if a is not None:
            import re as _re
            if m is None and _re.fullmatch(r'\w+', a.strip()):
                a = '{ %s }' % a          # a lone ident/number would be read as the member name
            parts.append(a)
        inner = ded_text(ev, self.ded) + ', '.join(parts)
        return '#[%s(%s)]' % (ev(self.name), inner) if inner else '#[%s]' % ev(self.name)


class GhostInstr:
    def __init__(self, name='ghost', ded=None, action=None, tag='g'):
        self.name, self.ded, self.action, self.tag = name, ded, action, tag

    def value(self, env, tabs, tys):
        b = env.b
        gt = tabs.get('ghost') or GHOST_BITS          # applicability as classified by the real parser (summary), not a constant
        bits = [env.is_in(self.name, lambda n, j=j: bool(gt[n][j])) for j in range(6)]
        core = b.mk('attr::FieldGhostAttrCore', container_ty=ded_val(env, self.ded, tys), action=opt_tokens(env, self.action, self.tag))
        return b.mk('attr::GhostAttr', attr=core, applicable_to=b.appl(bits))

    def text(self, ev):
        a = ev(self.action)
        inner = ded_text(ev, self.ded).rstrip('| ') if a is None else ded_text(ev, self.ded) + '{ %s }' % a
        return '#[%s(%s)]' % (ev(self.name), inner) if inner else '#[%s]' % ev(self.name)


class GhostData:
    """entry of a #[ghosts(...)] list: ident ('n',x)|('i',k)|('d', 'Name { .. }' text), optional child path [members]"""

    def __init__(self, ident, action, path=None, tag='gd'):
        self.ident, self.action, self.path, self.tag = ident, action, path, tag

    def value(self, env):
        b = env.b
        if self.path:
            cp = some(child_path_val(b, self.path))
        else:
            cp = none()
        if self.ident[0] == 'd':
            gi = b.enum('attr::GhostIdent', 'Destruction', toks(self.ident[1], self.tag + ':destr'))
        else:
            gi = b.enum('attr::GhostIdent', 'Member', member_val(b, self.ident))
        return b.mk('attr::GhostData', child_path=cp, ghost_ident=gi, action=toks(self.action, self.tag))

    def text(self, ev):
        pre = ('.'.join(member_text(m) for m in self.path) + '@') if self.path else ''
        return '%s%s: { %s }' % (pre, self.ident[1] if self.ident[0] == 'd' else member_text(self.ident), self.action)


class GhostsInstr:
    def __init__(self, name='ghosts', ded=None, data=()):
        self.name, self.ded, self.data = name, ded, list(data)

    def value(self, env, tabs, tys):
        b = env.b
        gt = tabs.get('ghosts_type') or GHOSTS_BITS
        bits = [env.is_in(self.name, lambda n, j=j: bool(gt[n][j])) for j in range(6)]
        core = b.mk('attr::StructGhostAttrCore', container_ty=ded_val(env, self.ded, tys), ghost_data=VecV([d.value(env) for d in self.data]))
        return b.mk('attr::GhostsAttr', attr=core, applicable_to=b.appl(bits))

    def text(self, ev):
        return '#[%s(%s%s)]' % (ev(self.name), ded_text(ev, self.ded), ', '.join(d.text(ev) for d in self.data))


def child_path_val(b, path):
    strs, acc = [], ''
    for m in path:
        acc = member_text(m) if not acc else acc + '.' + member_text(m)
        strs.append(acc)
    return b.mk('attr::ChildPath', child_path=VecV([member_val(b, m) for m in path]), child_path_str=VecV(strs))


class ChildInstr:
    def __init__(self, path, ded=None):
        self.path, self.ded = path, ded

    def value(self, env, tabs, tys):
        return env.b.mk('attr::ChildAttr', container_ty=ded_val(env, self.ded, tys), child_path=child_path_val(env.b, self.path))

    def text(self, ev):
        return '#[child(%s%s)]' % (ded_text(ev, self.ded), '.'.join(member_text(m) for m in self.path))


class ChildParents:
    """type-level #[child_parents(ded| a: A, a.b: B as ())]; entries: (path [members], type name, hint)"""

    def __init__(self, entries, ded=None):
        self.entries, self.ded = entries, ded

    def value(self, env, tabs, tys):
        b = env.b
        items = []
        for path, ty, hint in self.entries:
            items.append(b.mk('attr::ChildParentData', ty=Opq('Path', ty, toks(ty, 'ty:' + ty)), type_hint=b.hint(hint),
                              field_path=VecV([member_val(b, m) for m in path]), field_path_str='.'.join(member_text(m) for m in path)))
        return b.mk('attr::ChildParentsAttr', container_ty=ded_val(env, self.ded, tys), child_parents=VecV(items))

    def text(self, ev):
        return '#[child_parents(%s%s)]' % (ded_text(ev, self.ded), ', '.join('%s: %s%s' % ('.'.join(member_text(m) for m in p), t, HINT_TEXT[h]) for p, t, h in self.entries))


class WhereInstr:
    def __init__(self, text, ded=None, tag='w'):
        self.textv, self.ded, self.tag = text, ded, tag

    def value(self, env, tabs, tys):
        return env.b.mk('attr::WhereAttr', container_ty=ded_val(env, self.ded, tys), where_clause=VecV([Opq('WherePredicate', self.tag, toks(self.textv, self.tag))]))

    def text(self, ev):
        return '#[where_clause(%s%s)]' % (ded_text(ev, self.ded), self.textv)


class PField:
    """field of a parameterised #[parent(...)]: this ('n',x)|('i',k); attrs: [(instr name, that_member|None, action|None)];
    sub_path: [(member, type name|None)] (the chain of nested [parent(...)] it sits under)"""

    def __init__(self, this, attrs=(), sub_path=(), tag='pf'):
        self.this, self.attrs, self.sub_path, self.tag = this, list(attrs), list(sub_path), tag

    def value(self, env, tabs):
        b = env.b
        mtab = tabs['member_map']
        items = []
        for k, (nm, that, act) in enumerate(self.attrs):
            items.append(b.mk('attr::ParentChildFieldAttr', that_member=none() if that is None else some(member_val(b, that)),
                              action=none() if act is None else some(toks(act, '%s:%d' % (self.tag, k))), applicable_to=b.appl([bool(x) for x in mtab[nm][1]])))
        spt = TS([])
        for m, _ in self.sub_path:
            spt.items.append(TPunct('.'))
            t = TS();
            mv = member_val(b, m)
            spt.items.append(TIdent(m[1], 'user') if m[0] == 'n' else TLit(str(m[1])))
        sp = VecV([Agg(None, [member_val(b, m), none() if ty is None else some(Opq('Path', ty, toks(ty, 'ty:' + ty)))]) for m, ty in self.sub_path])
        return b.mk('attr::ParentChildField', this_member=member_val(b, self.this), attrs=VecV(items), sub_path=sp, sub_path_tokens=spt)


class ParentInstr:
    """#[parent], #[parent(Ded)], #[parent(Ded| [map(x)] f, [parent(g: G ...)] ...)]; fields: None (bare) | [PField] flattened as used"""

    def __init__(self, ded=None, fields=None, text_override=None):
        self.ded, self.fields, self.text_override = ded, fields, text_override

    def value(self, env, tabs, tys):
        b = env.b
        cf = none() if self.fields is None else some(VecV([f.value(env, tabs) for f in self.fields]))
        return b.mk('attr::ParentAttr', container_ty=ded_val(env, self.ded, tys), child_fields=cf)

    def text(self, ev):
        if self.fields is None:
            d = ev(self.ded)
            return '#[parent(%s)]' % d if d is not None else '#[parent]'
        if self.text_override is not None:
            return '#[parent(%s%s)]' % (ded_text(ev, self.ded), self.text_override)
        # render the nested form from the flattened fields
        def rend(fields, depth):
            out, groups, order = [], {}, []
            for f in fields:
                if len(f.sub_path) > depth:
                    key = (f.sub_path[depth][0], f.sub_path[depth][1])
                    if key not in groups:
                        groups[key] = []; order.append(('g', key))
                    groups[key].append(f)
                else:
                    order.append(('f', f))
            for k, x in order:
                if k == 'f':
                    pre = ''.join('[%s(%s)] ' % (nm, ', '.join(([member_text(t)] if t is not None else []) + ([a] if a is not None else []))) for nm, t, a in x.attrs)
                    out.append(pre + member_text(x.this))
                else:
                    m, ty = x
                    out.append('[parent(%s)] %s%s' % (rend(groups[x], depth + 1), member_text(m), (': ' + ty) if ty else ''))
            return ', '.join(out)
        return '#[parent(%s%s)]' % (ded_text(ev, self.ded), rend(self.fields, 0))


class SimpleInstr:
    """literal / pattern (tokens) and type_hint (hint)"""

    def __init__(self, kind, arg, ded=None, tag=None):
        self.kind, self.arg, self.ded, self.tag = kind, arg, ded, tag or kind

    def value(self, env, tabs, tys):
        b = env.b
        cty = ded_val(env, self.ded, tys)
        if self.kind == 'literal':
            return b.mk('attr::LitAttr', container_ty=cty, tokens=toks(self.arg, self.tag))
        if self.kind == 'pattern':
            return b.mk('attr::PatAttr', container_ty=cty, tokens=toks(self.arg, self.tag))
        d = env.int_of(self.arg, lambda h: HINTS.index(h))
        return b.mk('attr::VariantTypeHintAttr', container_ty=cty, type_hint=b.hint(d))

    def text(self, ev):
        if self.kind == 'type_hint':
            return '#[type_hint(%s%s)]' % (ded_text(ev, self.ded), HINT_TEXT[ev(self.arg)].strip())
        return '#[%s(%s%s)]' % (self.kind, ded_text(ev, self.ded), self.arg)


class Repeat:
    def __init__(self, permeate=False, cats=(1, 1, 1, 1, 1)):
        self.permeate, self.cats = permeate, cats

    def value(self, env):
        b = env.b
        return b.mk('attr::MemberRepeatAttr', permeate=env.is_in(self.permeate, bool) if isinstance(self.permeate, Ch) else bool(self.permeate),
                    repeat_for=b.appl([bool(c) if not isinstance(c, Ch) else env.is_in(c, bool) for c in self.cats]))

    def text(self, ev):
        names = ['map', 'child', 'parent', 'ghost', 'type_hint']
        cats = [ev(c) for c in self.cats]
        parts = (['permeate()'] if ev(self.permeate) else []) + ([] if all(cats) else [n for n, c in zip(names, cats) if c])
        return '#[repeat(%s)]' % ', '.join(parts) if parts else '#[repeat]'


class Member:
    """field or variant; instrs: list of instruction objects above"""

    def __init__(self, name=None, ty='i32', instrs=(), repeat=None, skip_repeat=False, stop_repeat=False, fields=None, shape=None):
        self.name, self.ty, self.instrs = name, ty, list(instrs)
        self.repeat, self.skip_repeat, self.stop_repeat = repeat, skip_repeat, stop_repeat
        self.fields, self.shape = fields, shape      # variants only: payload fields, 'named'|'tuple'|'unit'

    def attrs_value(self, env, tabs, tys):
        b = env.b
        by = {MapInstr: [], ChildInstr: [], ParentInstr: [], GhostInstr: [], GhostsInstr: [], 'literal': [], 'pattern': [], 'type_hint': []}
        self._resolved = []
        for i in self.instrs:
            if hasattr(i, 'inner'):           # optional instruction selected by a forked choice
                c, _ = env.pick(i.ch)
                i = i.inner(c)
                if i is None:
                    continue
            self._resolved.append(i)
            if isinstance(i, SimpleInstr):
                by[i.kind].append(i.value(env, tabs, tys))
            else:
                by[type(i)].append(i.value(env, tabs, tys))
        boolv = lambda x: env.is_in(x, bool) if isinstance(x, Ch) else bool(x)
        return b.mk('attr::MemberAttrs', attrs=VecV(by[MapInstr]), child_attrs=VecV(by[ChildInstr]), parent_attrs=VecV(by[ParentInstr]),
                    ghost_attrs=VecV(by[GhostInstr]), ghosts_attrs=VecV(by[GhostsInstr]), lit_attrs=VecV(by['literal']), pat_attrs=VecV(by['pattern']),
                    repeat=none() if self.repeat is None else some(self.repeat.value(env)), skip_repeat=boolv(self.skip_repeat), stop_repeat=boolv(self.stop_repeat),
                    type_hint_attrs=VecV(by['type_hint']), error_instrs=VecV([]))

    def field_value(self, env, tabs, tys, idx):
        b = env.b
        m = b.named(self.name) if self.name is not None else b.unnamed(idx)
        ty = some(Opq('Path', self.ty, toks(self.ty, 'fty:' + self.ty))) if self.ty and self.ty.replace('_', 'a').replace(':', 'a').isalnum() else none()
        return b.mk('ast::Field', attrs=self.attrs_value(env, tabs, tys), idx=idx, member=m, member_str=self.name if self.name is not None else str(idx), ty=ty)

    def attrs_text(self, ev):
        ins = []
        for i in self.instrs:
            if hasattr(i, 'inner'):
                i = i.inner(ev(i.ch))
                if i is None:
                    continue
            ins.append(i)
        out = [i.text(ev) for i in ins]
        if self.repeat is not None:
            out.append(self.repeat.text(ev))
        if ev(self.skip_repeat):
            out.append('#[skip_repeat]')
        if ev(self.stop_repeat):
            out.append('#[stop_repeat]')
        return ' '.join(out)

    def field_text(self, ev):
        a = self.attrs_text(ev)
        return '%s %s%s' % (a, (self.name + ': ') if self.name is not None else '', self.ty)

    def variant_value(self, env, tabs, tys, idx):
        b = env.b
        fields = VecV([f.field_value(env, tabs, tys, i) for i, f in enumerate(self.fields or [])])
        return b.mk('ast::Variant', attrs=self.attrs_value(env, tabs, tys), ident=b.ident(self.name), _idx=idx, fields=fields,
                    named_fields=self.shape == 'named', unit=self.shape == 'unit')

    def variant_text(self, ev):
        a = self.attrs_text(ev)
        if self.shape == 'unit':
            body = ''
        elif self.shape == 'named':
            body = ' { %s }' % ', '.join(f.field_text(ev) for f in self.fields)
        else:
            body = '(%s)' % ', '.join(f.field_text(ev) for f in self.fields)
        return '%s %s%s' % (a, self.name, body)


class TraitInstr:
    """type-level trait instruction.  ty: type name (str) or ('tuple', text); generics: text like "<'a, T>" or None"""

    def __init__(self, name, ty, hint='Unspecified', err=None, vars=None, update=None, quick_return=None, default_case=None,
                 repeat=None, skip_repeat=False, stop_repeat=False, attribute=None, impl_attribute=None, inner_attribute=None, tag='t', ty_generics=None):
        self.name, self.ty, self.hint, self.err, self.vars = name, ty, hint, err, vars
        self.update, self.quick_return, self.default_case = update, quick_return, default_case
        self.repeat, self.skip_repeat, self.stop_repeat = repeat, skip_repeat, stop_repeat
        self.attribute, self.impl_attribute, self.inner_attribute = attribute, impl_attribute, inner_attribute
        self.tag, self.ty_generics = tag, ty_generics

    def value(self, env, tabs, tys):
        b = env.b
        ttab = tabs['trait']
        fall = env.is_in(self.name, lambda n: ttab[n][0])
        bits = [env.is_in(self.name, lambda n, j=j: ttab[n][1][j]) for j in range(6)]
        if isinstance(self.ty, tuple):
            tp = b.type_path('(%s)' % self.ty[1], TS([TGroup('Parenthesis', toks(self.ty[1], 'ty:tuple'), 'ty:tuple')]), nameless_tuple=True)
            hint = b.hint('Tuple')
        else:
            gen = none()
            if self.ty_generics:
                gen = some(self.ty_generics.value(b))
            tp = b.type_path(self.ty + (self.ty_generics.path_str_suffix() if self.ty_generics else ''), toks(self.ty, 'ty:' + self.ty), generics=gen)
            hint = b.hint(env.int_of(self.hint, lambda h: HINTS.index(h)))
        errv = none()
        c, v = env.pick(self.err)
        if isinstance(self.err, Ch) and c is None:
            et = [d for d in self.err.dom if d is not None][0]
            errv = EnumV(OPT, z3.If(env.is_in(self.err, lambda d: d is not None), 1, 0), {1: [b.type_path(et, toks(et, 'err:' + et))]})
        elif c is not None:
            errv = some(b.type_path(c, toks(c, 'err:' + c)))
        init = none()
        cv, vv = env.pick(self.vars)
        if cv is not None:
            init = some(VecV([b.mk('attr::InitData', ident=b.ident(n), _colon=Opq('Colon', 0), action=toks(a, '%s:var%d' % (self.tag, k))) for k, (n, a) in enumerate(cv)]))
        elif isinstance(self.vars, Ch) and not self.vars.fork:
            alts = [d for d in self.vars.dom if d is not None]
            if len(alts) != 1:
                raise Unsupported('spec: symbolic vars needs exactly one alternative')
            init = EnumV(OPT, z3.If(env.is_in(self.vars, lambda d: d is not None), 1, 0),
                         {1: [VecV([b.mk('attr::InitData', ident=b.ident(n), _colon=Opq('Colon', 0), action=toks(a, '%s:var%d' % (self.tag, k))) for k, (n, a) in enumerate(alts[0])])]})
        wrap = lambda x, pre, tg: opt_wrap(env, x, pre, self.tag + ':' + tg)
        rep = none()
        if self.repeat is not None:
            rep = some(b.appl([bool(c) for c in self.repeat]))
        boolv = lambda x: env.is_in(x, bool) if isinstance(x, Ch) else bool(x)
        core = b.mk('attr::TraitAttrCore', ty=tp, err_ty=errv, type_hint=hint, init_data=init,
                    update=opt_tokens(env, self.update, self.tag + ':upd'), quick_return=opt_tokens(env, self.quick_return, self.tag + ':ret'),
                    default_case=opt_tokens(env, self.default_case, self.tag + ':dflt'), repeat=rep, skip_repeat=boolv(self.skip_repeat), stop_repeat=boolv(self.stop_repeat),
                    attribute=wrap(self.attribute, '#', 'attr'), impl_attribute=wrap(self.impl_attribute, '#', 'iattr'), inner_attribute=wrap(self.inner_attribute, '#!', 'nattr'))
        return b.mk('attr::TraitAttr', core=core, fallible=fall, applicable_to=b.appl(bits))

    def text(self, ev):
        if isinstance(self.ty, tuple):
            head = '(%s)' % self.ty[1]
        else:
            head = self.ty + (self.ty_generics.text() if self.ty_generics else '') + HINT_TEXT[ev(self.hint)]
        e = ev(self.err)
        if e is not None:
            head += ', ' + e
        params = []
        vs = ev(self.vars)
        if vs:
            params.append('vars(%s)' % ', '.join('%s: { %s }' % (n, a) for n, a in vs))
        if self.repeat is not None:
            names = ['vars', 'update', 'quick_return', 'default_case']
            params.append('repeat(%s)' % ('' if all(self.repeat) else ', '.join(n for n, c in zip(names, self.repeat) if c)))
        if ev(self.skip_repeat):
            params.append('skip_repeat')
        if ev(self.stop_repeat):
            params.append('stop_repeat')
        for nm, x in (('attribute', self.attribute), ('impl_attribute', self.impl_attribute), ('inner_attribute', self.inner_attribute)):
            t = ev(x)
            if t is not None:
                params.append('%s(%s)' % (nm, t))
        tail = None
        if ev(self.update) is not None:
            tail = '..%s' % ev(self.update)
        elif ev(self.quick_return) is not None:
            tail = 'return %s' % ev(self.quick_return)
        elif ev(self.default_case) is not None:
            tail = '_ %s' % ev(self.default_case)
        if tail:
            params.append(tail)
        return '#[%s(%s%s)]' % (ev(self.name), head, ('| ' + ', '.join(params)) if params else '')


def opt_wrap(env, x, prefix, origin):
    """attribute(...) parameters are stored as `#[ x ]` / `#![ x ]`"""
    c, v = env.pick(x)

    def mk(t):
        ts = TS([TPunct(ch, False) for ch in prefix])
        ts.items.append(TGroup('Bracket', toks(t, origin)))
        return ts
    if not isinstance(x, Ch) or c is not None or v is None:
        return none() if c is None else some(mk(c))
    texts = [d for d in x.dom if d is not None]
    return EnumV(OPT, z3.If(env.is_in(x, lambda d: d is not None), 1, 0), {1: [mk(texts[0])]})


class TyGenerics:
    """generic arguments on a counterpart path: list of ('lt', "'a") | ('ty', 'T')"""

    def __init__(self, args):
        self.args = args

    def value(self, b):
        items = []
        ga = b.e.enums['syn::GenericArgument']
        for k, a in self.args:
            if k == 'lt':
                items.append(EnumV('syn::GenericArgument', ga.index('Lifetime'), {ga.index('Lifetime'): [LifetimeV(a)]}))
            else:
                items.append(EnumV('syn::GenericArgument', ga.index('Type'), {ga.index('Type'): [Opq('Type', a, toks(a, 'targ:' + a))]}))
        return AngleArgsV(items)

    def text(self):
        return '<%s>' % ', '.join(a for _, a in self.args)

    def path_str_suffix(self):
        return ' < %s >' % ' , '.join(a.replace("'", "' ") if False else a for _, a in self.args)


class LifetimeV:
    def __init__(self, name):
        self.name = name

    def get_field(self, e, i):
        # syn::Lifetime { apostrophe: Span, ident: Ident }
        from models import IdentV
        return [Opq('Span', 'lt'), IdentV(self.name[1:], Opq('Span', 'id:' + self.name[1:]), 'user')][i]

    def clone(self):
        return self

    def to_tokens(self, e, ts):
        ts.items.append(TPunct("'", True, 'user')); ts.items.append(TIdent(self.name[1:], 'user'))

    def __eq__(self, o):
        return isinstance(o, LifetimeV) and o.name == self.name

    def __hash__(self):
        return hash(self.name)


class AngleArgsV:
    """syn::AngleBracketedGenericArguments {colon2_token, lt_token, args, gt_token}"""

    def __init__(self, items):
        self.args = VecV(items)

    def clone(self):
        return self

    def get_field(self, e, i):
        if i == 2:
            return self.args
        raise Unsupported('AngleBracketedGenericArguments field %d' % i)

    def to_tokens(self, e, ts):
        from models import to_tokens, push_punct
        push_punct(ts, '<')
        for i, a in enumerate(self.args.items):
            if i:
                push_punct(ts, ',')
            to_tokens(e, a, ts)
        push_punct(ts, '>')


class TypeParam:
    """generic parameter of the deriving type: kind 'lt'|'ty'|'const', name, decl text (full declaration)"""

    def __init__(self, kind, name, decl=None):
        self.kind, self.name, self.decl = kind, name, decl or name
        self.decl_ts = None


class Spec:
    """a whole derive input"""

    def __init__(self, kind, name='S', shape='named', traits=(), members=(), type_instrs=(), tys=('X', 'Y'), generics=()):
        self.kind, self.name, self.shape = kind, name, shape          # kind: 'struct' | 'enum'
        self.traits, self.members, self.type_instrs, self.tys = list(traits), list(members), list(type_instrs), tuple(tys)
        self.generics = list(generics)

    def value(self, env, tabs):
        b, tys = env.b, self.tys
        tis = []
        for i in self.type_instrs:
            if hasattr(i, 'inner'):
                c, _ = env.pick(i.ch)
                i = i.inner(c)
                if i is None:
                    continue
            tis.append(i)
        self._tis = tis
        ghosts = [i.value(env, tabs, tys) for i in tis if isinstance(i, GhostsInstr)]
        wheres = [i.value(env, tabs, tys) for i in tis if isinstance(i, WhereInstr)]
        cps = [i.value(env, tabs, tys) for i in tis if isinstance(i, ChildParents)]
        dta = b.mk('attr::DataTypeAttrs', attrs=VecV([t.value(env, tabs, tys) for t in self.traits]), ghosts_attrs=VecV(ghosts), where_attrs=VecV(wheres),
                   child_parents_attrs=VecV(cps), error_instrs=VecV([]))
        gp = b.e.enums['syn::GenericParam']
        gparams = []
        for p in self.generics:
            var = {'lt': 'Lifetime', 'ty': 'Type', 'const': 'Const'}[p.kind]
            pay = GenericParamV(p)
            gparams.append(EnumV('syn::GenericParam', gp.index(var), {gp.index(var): [pay]}))
        gens = Ref(Cell(GenericsV(gparams, None)))
        ident = Ref(Cell(b.ident(self.name)))
        if self.kind == 'struct':
            st = b.mk('ast::Struct', attrs=dta, ident=ident, generics=gens,
                      fields=VecV([m.field_value(env, tabs, tys, i) for i, m in enumerate(self.members)]),
                      named_fields=self.shape == 'named', unit=self.shape == 'unit')
            return b.enum('ast::DataType', 'Struct', Ref(Cell(st)))
        en = b.mk('ast::Enum', attrs=dta, ident=ident, generics=gens, variants=VecV([m.variant_value(env, tabs, tys, i) for i, m in enumerate(self.members)]))
        return b.enum('ast::DataType', 'Enum', Ref(Cell(en)))

    def text(self, ev):
        tis = []
        for i in self.type_instrs:
            if hasattr(i, 'inner'):
                i = i.inner(ev(i.ch))
                if i is None:
                    continue
            tis.append(i)
        head = ' '.join([t.text(ev) for t in self.traits] + [i.text(ev) for i in tis])
        gen = ('<%s>' % ', '.join(p.decl for p in self.generics)) if self.generics else ''
        if self.kind == 'struct':
            if self.shape == 'named':
                body = ' { %s }' % ', '.join(m.field_text(ev) for m in self.members)
            elif self.shape == 'tuple':
                body = '(%s);' % ', '.join(m.field_text(ev) for m in self.members)
            else:
                body = ';'
            return '%s struct %s%s%s' % (head, self.name, gen, body)
        return '%s enum %s%s { %s }' % (head, self.name, gen, ', '.join(m.variant_text(ev) for m in self.members))


class GenericParamV:
    """payload of a syn::GenericParam variant; prints its full declaration (as syn 1.x does)"""

    def __init__(self, p):
        self.p = p

    def clone(self):
        return self

    def get_field(self, e, i):
        # LifetimeDef { attrs, lifetime, colon_token, bounds }
        if self.p.kind == 'lt' and i == 1:
            return LifetimeV(self.p.name)
        raise Unsupported('GenericParam field %d' % i)

    def decl_items(self):
        dts = getattr(self.p, 'decl_ts', None)
        return list(dts.items) if dts is not None else list(toks(self.p.decl, 'gen:' + self.p.name).items)

    def to_tokens(self, e, ts):
        ts.items.extend(self.decl_items())

    def impl_tokens(self, e, ts):
        # syn's ImplGenerics: the declaration without its default (`T: Clone = i32` -> `T: Clone`, `const N: usize = 3` -> `const N: usize`)
        items, depth, out = self.decl_items(), 0, []
        for t in items:
            if isinstance(t, TPunct) and t.ch == '<':
                depth += 1
            elif isinstance(t, TPunct) and t.ch == '>':
                depth -= 1
            elif isinstance(t, TPunct) and t.ch == '=' and depth == 0:
                break
            out.append(t)
        ts.items.extend(out)

    def name_tokens(self, e, ts):
        # syn's TypeGenerics: lifetime / ident only
        items = self.decl_items()
        if self.p.kind == 'lt':
            ts.items.extend(items[:2])
        elif self.p.kind == 'const':
            ts.items.append(items[1])
        else:
            ts.items.append(items[0])
