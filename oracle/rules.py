"""C15 oracle: the documented configuration rules as predicates over a symbolic derive input (Spec + Env).

Each rule instance is (id, strict, loose, message):  strict => the message must be reported;  the message may be reported only
if loose holds.  strict == loose unless the documentation leaves the exact condition open (then loose is the widest reading).
Messages are the documented diagnostics (o2o-impl/src/tests.rs expectations).  Nothing here reads validate.rs."""
import z3
from spec import (Ch, MapInstr, GhostInstr, GhostsInstr, ChildInstr, ChildParents, WhereInstr, ParentInstr, SimpleInstr, TraitInstr)
import docs

KINDS = docs.KINDS
FROM = ('FromOwned', 'FromRef')
INTO = ('OwnedInto', 'RefInto')
EXISTING = ('OwnedIntoExisting', 'RefIntoExisting')


def B(x):
    return z3.BoolVal(x) if isinstance(x, bool) else x


def And(*xs):
    xs = [B(x) for x in xs]
    return z3.And(xs) if xs else z3.BoolVal(True)


def Or(*xs):
    xs = [B(x) for x in xs]
    return z3.Or(xs) if xs else z3.BoolVal(False)


def Not(x):
    return z3.Not(B(x))


class R:
    def __init__(self, spec, env):
        self.spec, self.env = spec, env
        self.dk = docs.doc_kinds()
        self.rules = []

    def add(self, rid, strict, msg, loose=None):
        self.rules.append((rid, B(strict), B(loose if loose is not None else strict), msg))

    # ---- helpers over choices
    def applies(self, t, kind, fallible):
        return self.env.is_in(t.name, lambda n: (kind, fallible) in self.dk[n])

    def applies_any(self, t, kinds, fallible=None):
        fs = (False, True) if fallible is None else (fallible,)
        return Or(*[self.applies(t, k, f) for k in kinds for f in fs])

    def t_fallible(self, t):
        return self.env.is_in(t.name, lambda n: any(f for _, f in self.dk[n]))

    def present(self, x):
        return self.env.is_in(x, lambda d: d is not None)

    def ded_is(self, x, d):
        return self.env.is_in(x, lambda v: v == d)

    def ded_dom(self, x):
        return x.dom if isinstance(x, Ch) else [x]

    def ghost_applies(self, g, kind):
        return self.env.is_in(g.name, lambda n: docs.ghost_kinds(n)[KINDS.index(kind)])

    def tys(self):
        return [t.ty if isinstance(t.ty, str) else '(tuple)' for t in self.spec.traits]

    # ---- the rules
    def build(self):
        spec = self.spec
        T = spec.traits
        tys = self.tys()
        if not T:
            self.add('R1', True, 'At least one trait instruction is expected.')
        # R2 duplicates / R3 / R4
        dup = []
        for i in range(len(T)):
            for j in range(i + 1, len(T)):
                if tys[i] == tys[j]:
                    dup.append(Or(*[And(self.applies(T[i], k, f), self.applies(T[j], k, f)) for k in KINDS for f in (False, True)]))
        if dup:
            self.add('R2', Or(*dup), 'Ident here must be unique.')
        self.add('R3', Or(*[And(self.t_fallible(t), Not(self.present(t.err))) for t in T]), 'Error type should be specified for fallible instruction.')
        self.add('R4', Or(*[And(Not(self.t_fallible(t)), self.present(t.err)) for t in T]), 'Error type should not be specified for infallible instruction.')
        known = set(tys)

        def unknown(ded_choice, tag):
            for d in self.ded_dom(ded_choice):
                if d is not None and d not in known:
                    self.add('R5:' + tag, self.ded_is(ded_choice, d), "Type '%s' doesn't match any type specified in trait instructions." % d)
        tis = getattr(spec, '_tis', spec.type_instrs)
        ghosts = [i for i in tis if isinstance(i, GhostsInstr)]
        wheres = [i for i in tis if isinstance(i, WhereInstr)]
        cps = [i for i in tis if isinstance(i, ChildParents)]
        for n, g in enumerate(ghosts):
            unknown(g.ded, 'ghosts%d' % n)
        for n, w in enumerate(wheres):
            unknown(w.ded, 'where%d' % n)
        for n, c in enumerate(cps):
            unknown(c.ded, 'cps%d' % n)
        # R6 / R7 type level
        def pairs(xs):
            return [(xs[i], xs[j]) for i in range(len(xs)) for j in range(i + 1, len(xs))]
        self.add('R6:ghosts', Or(*[And(self.ded_is(a.ded, None), self.ded_is(b.ded, None), Or(*[And(self.ghosts_applies(a, k), self.ghosts_applies(b, k)) for k in KINDS])) for a, b in pairs(ghosts)]),
                 'There can be at most one default #[ghosts(...)] instruction.')
        self.add('R6:where', Or(*[And(self.ded_is(a.ded, None), self.ded_is(b.ded, None)) for a, b in pairs(wheres)]), 'There can be at most one default #[where_clause(...)] instruction.')
        self.add('R6:cps', Or(*[And(self.ded_is(a.ded, None), self.ded_is(b.ded, None)) for a, b in pairs(cps)]), 'There can be at most one default #[child_parents(...)] instruction.')
        for name, xs, extra in (('ghosts', ghosts, True), ('where_clause', wheres, False), ('child_parents', cps, False)):
            alld = sorted({d for x in xs for d in self.ded_dom(x.ded) if d is not None})
            for d in alld:
                conds = []
                for a, b in pairs(xs):
                    c = And(self.ded_is(a.ded, d), self.ded_is(b.ded, d))
                    if extra:
                        c = And(c, Or(*[And(self.ghosts_applies(a, k), self.ghosts_applies(b, k)) for k in KINDS]))
                    conds.append(c)
                self.add('R7:%s:%s' % (name, d), Or(*conds), 'Dedicated #[%s(...)] instruction for type %s is already defined.' % (name, d))
        # R15 duplicate child_parents path inside one instruction
        for n, c in enumerate(cps):
            paths = ['.'.join(str(m[1]) for m in p) for p, _, _ in c.entries]
            if len(set(paths)) != len(paths):
                self.add('R15:%d' % n, True, 'Ident here must be unique.')
        # members
        from_nu = []      # (type, condition: has a From conversion without ..update)
        into_ne = []      # (type, condition: has an Into (not existing) conversion)
        for t, ty in zip(T, tys):
            from_nu.append((ty, And(self.applies_any(t, FROM), Not(self.present(t.update)))))
            into_ne.append((ty, self.applies_any(t, INTO)))

        def ty_cond(lst, ty):
            return Or(*[c for y, c in lst if y == ty])
        for mi, m in enumerate(spec.members):
            ins = getattr(m, '_resolved', m.instrs)
            mname = m.name if m.name is not None else str(mi)
            maps = [i for i in ins if isinstance(i, MapInstr)]
            gh = [i for i in ins if isinstance(i, GhostInstr)]
            for n, i in enumerate(maps):
                unknown(i.ded, 'm%d.map%d' % (mi, n))
            for n, i in enumerate(gh):
                unknown(i.ded, 'm%d.ghost%d' % (mi, n))
            if spec.kind == 'struct':
                for kind_name, cls in (('literal', 'literal'), ('pattern', 'pattern'), ('type_hint', 'type_hint')):
                    if any(isinstance(i, SimpleInstr) and i.kind == cls for i in ins):
                        self.add('R10:m%d:%s' % (mi, cls), True, 'Instruction #[%s(...)] is not supported for this member.' % kind_name)
                for g in [i for i in ins if isinstance(i, GhostsInstr)]:
                    for nm in ('ghosts', 'ghosts_owned', 'ghosts_ref'):
                        self.add('R10:m%d:%s' % (mi, nm), self.env.is_in(g.name, lambda v, nm=nm: v == nm), 'Instruction #[%s(...)] is not supported for this member.' % nm)
                ps = [i for i in ins if isinstance(i, ParentInstr)]
                self.member_dups(ps, 'parent', 'm%d' % mi, unknown)
                for n, c in enumerate([i for i in ins if isinstance(i, ChildInstr)]):
                    unknown(c.ded, 'm%d.child%d' % (mi, n))
                    self.child_rules(c, cps, into_ne, tys, 'm%d.child%d' % (mi, n))
                # R12 ghost without default
                for g in gh:
                    nodef = Not(self.present(g.action))
                    for ty in sorted(set(tys)):
                        need_strict = And(nodef, Or(self.ded_is(g.ded, ty), self.ded_is(g.ded, None)),
                                          Or(*[And(self.applies_any(t, (k,)), Not(self.present(t.update)), self.ghost_applies(g, k)) for t, y in zip(T, tys) if y == ty for k in FROM]))
                        need_loose = And(nodef, Or(self.ded_is(g.ded, ty), self.ded_is(g.ded, None)), ty_cond(from_nu, ty))
                        self.add('R12:m%d:%s' % (mi, ty), need_strict, "Member instruction #[ghost(...)] for member '%s' should provide default value for type %s" % (mname, ty), need_loose)
                if m.repeat is not None:
                    self.add('R13:m%d' % mi, self.env.is_in(m.repeat.permeate, bool) if isinstance(m.repeat.permeate, Ch) else bool(m.repeat.permeate),
                             'Permeating repeat instruction is only applicable to enum variant fields.')
            else:
                if any(isinstance(i, ParentInstr) for i in ins):
                    self.add('R10:v%d:parent' % mi, True, 'Instruction #[parent(...)] is not supported for this member.')
                for cls in ('literal', 'pattern', 'type_hint'):
                    xs = [i for i in ins if isinstance(i, SimpleInstr) and i.kind == cls]
                    self.member_dups(xs, cls, 'v%d' % mi, unknown)
        return self.rules

    def ghosts_applies(self, g, kind):
        return self.env.is_in(g.name, lambda n: docs.ghost_kinds(n)[KINDS.index(kind)])

    def member_dups(self, xs, name, tag, unknown):
        for n, x in enumerate(xs):
            unknown(x.ded, '%s.%s%d' % (tag, name, n))
        prs = [(xs[i], xs[j]) for i in range(len(xs)) for j in range(i + 1, len(xs))]
        self.add('R8:%s:%s' % (tag, name), Or(*[And(self.ded_is(a.ded, None), self.ded_is(b.ded, None)) for a, b in prs]),
                 'There can be at most one default #[%s(...)] instruction for a given member.' % name)
        for d in sorted({d for x in xs for d in self.ded_dom(x.ded) if d is not None}):
            self.add('R9:%s:%s:%s' % (tag, name, d), Or(*[And(self.ded_is(a.ded, d), self.ded_is(b.ded, d)) for a, b in prs]),
                     'Dedicated #[%s(...)] instruction for type %s is already defined.' % (name, d))

    def child_rules(self, c, cps, into_ne, tys, tag):
        """R14: a child path used for an Into (non-existing) conversion needs child_parents entries for every prefix"""
        path = ['.'.join(str(m[1]) for m in c.path[:k + 1]) for k in range(len(c.path))]
        for ty in sorted(set(tys)):
            applies = And(Or(self.ded_is(c.ded, ty), self.ded_is(c.ded, None)), Or(*[cond for y, cond in into_ne if y == ty]))
            ded_cps = [x for x in cps]
            has_ded = Or(*[self.ded_is(x.ded, ty) for x in ded_cps])
            has_def = Or(*[self.ded_is(x.ded, None) for x in ded_cps])
            self.add('R14:%s:%s:none' % (tag, ty), And(applies, Not(has_ded), Not(has_def)), 'Missing #[child_parents(...)] instruction for %s' % ty)
            for p in path:
                # the instruction consulted is the first dedicated one, else the first default one
                conds = []
                for idx, x in enumerate(ded_cps):
                    chosen_ded = And(self.ded_is(x.ded, ty), *[Not(self.ded_is(y.ded, ty)) for y in ded_cps[:idx]])
                    chosen_def = And(Not(has_ded), self.ded_is(x.ded, None), *[Not(self.ded_is(y.ded, None)) for y in ded_cps[:idx]])
                    has_p = any('.'.join(str(m[1]) for m in pp) == p for pp, _, _ in x.entries)
                    if not has_p:
                        conds.append(Or(chosen_ded, chosen_def))
                self.add('R14:%s:%s:%s' % (tag, ty, p), And(applies, Or(*conds)), "Missing '%s: [Type Path]' instruction for type %s" % (p, ty))
