"""Reference tables taken from the documentation (README.md), never from the implementation.

* the six basic instructions and the trait impl each stands for (README "12 kinds of traits" list),
* the shortcut table (README ✔️/❌ table), parsed from /repo/README.md at check time,
* the naming rule of the fallible forms and of ghost/ghosts `_owned` / `_ref`.
"""
import os, re

REPO = os.environ.get('VERIF_REPO', '/repo')
KINDS = ['OwnedInto', 'RefInto', 'FromOwned', 'FromRef', 'OwnedIntoExisting', 'RefIntoExisting']
BASIC = {'owned_into': 'OwnedInto', 'ref_into': 'RefInto', 'from_owned': 'FromOwned', 'from_ref': 'FromRef',
         'owned_into_existing': 'OwnedIntoExisting', 'ref_into_existing': 'RefIntoExisting'}
# what each kind means as a trait impl (README list):  (trait, by_ref, direction)
IMPL_OF = {'FromOwned': ('From', False), 'FromRef': ('From', True), 'OwnedInto': ('Into', False), 'RefInto': ('Into', True),
           'OwnedIntoExisting': ('IntoExisting', False), 'RefIntoExisting': ('IntoExisting', True)}
OWNED_KINDS = {'OwnedInto', 'FromOwned', 'OwnedIntoExisting'}


def try_name(n):
    for pre in ('owned_', 'ref_'):
        if n.startswith(pre):
            return pre + 'try_' + n[len(pre):]
    return 'try_' + n


def parse_shortcut_table(readme=None):
    txt = open(readme or os.path.join(REPO, 'README.md'), encoding='utf-8').read()
    lines = txt.split('\n')
    hdr = None
    table = {}
    for i, ln in enumerate(lines):
        if ln.startswith('|') and '#[map()]' in ln and '#[into_existing()]' in ln:
            hdr = [re.sub(r'[#\[\]()]', '', c).strip() for c in ln.strip().strip('|').split('|')][1:]
            j = i + 2
            while j < len(lines) and lines[j].startswith('|'):
                cells = [c.strip() for c in lines[j].strip().strip('|').split('|')]
                basic = re.sub(r'[*#\[\]()]', '', cells[0]).strip()
                for sc, mark in zip(hdr, cells[1:]):
                    table.setdefault(sc, set())
                    if '✔' in mark:
                        table[sc].add(basic)
                j += 1
            break
    if hdr is None or len(table) != 6 or any(b not in BASIC for s in table.values() for b in s):
        raise RuntimeError('README shortcut table not found / changed shape')
    return table


def doc_kinds():
    """instruction name -> set of (kind, fallible) it stands for, per the documentation"""
    sc = parse_shortcut_table()
    out = {}
    for b, k in BASIC.items():
        out[b] = {(k, False)}
        out[try_name(b)] = {(k, True)}
    for s, basics in sc.items():
        out[s] = {(BASIC[b], False) for b in basics}
        out[try_name(s)] = {(BASIC[b], True) for b in basics}
    return out


def doc_bits(name, table=None):
    t = table or doc_kinds()
    ks = t[name]
    return [any(k == kk for kk, _ in ks) for k in KINDS], any(f for _, f in ks)


def ghost_kinds(name):
    """ghost / ghosts and their _owned / _ref forms -> kinds they apply to"""
    if name.endswith('_owned'):
        return [k in OWNED_KINDS for k in KINDS]
    if name.endswith('_ref'):
        return [k not in OWNED_KINDS for k in KINDS]
    return [True] * 6


def basics_of(name, table=None):
    """the documented list of basic instructions a (possibly fallible) shortcut abbreviates"""
    t = table or doc_kinds()
    inv = {}
    for b, k in BASIC.items():
        inv[(k, False)] = b
        inv[(k, True)] = try_name(b)
    return sorted(inv[x] for x in t[name])


if __name__ == '__main__':
    t = doc_kinds()
    for k in sorted(t):
        print(k, sorted(t[k]), basics_of(k, t))
