#!/bin/bash
# Build the framework from files on disk only (offline): the native replay helper and the
# dependency caches of the nightly MIR dump.  Everything lands under /verif/target (ignored by git).
set -e
cd "$(dirname "$0")"
export CARGO_NET_OFFLINE=true
(cd crates/replay && cargo build --release --offline --target-dir /verif/target/replay 2>&1 | tail -2)
(cd crates/replay2 && cargo build --release --offline --target-dir /verif/target/replay2 2>&1 | tail -2)
python3-vt symx/prep.py > /dev/null
echo setup ok
# warm the Kani build of the generated-code crate (proc-macro + o2o built by the host cargo)
(cd kgen/tmpl && CARGO_NET_OFFLINE=true cargo kani --target-dir /verif/target/kani --output-format terse >/dev/null 2>&1 || true)
echo setup done
